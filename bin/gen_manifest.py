#!/usr/bin/env python3
"""Regenerates /verif/MANIFEST.json from the table below (kept next to the
checks so the manifest never claims what is not built)."""
import json, subprocess, sys

HOOK_COMMITS = subprocess.run(
    ["git", "-C", "/repo", "log", "--format=%H %s"], capture_output=True, text=True
).stdout.splitlines()
hook_commits = [l.split()[0] for l in HOOK_COMMITS if " verif hook " in l]
hook_commits.reverse()

TECH = "deterministic simulation with fault injection: seeded search over schedules and fault sequences"

CHECKS = {
    "C01": dict(
        engine="E1",
        category="exploration",
        text="Seeded deterministic simulation (engine E1): scripted well-behaved writers against the real MessageReceiver/Reader/RtpsWriterProxy/FragmentAssembler/TopicCache; messages delivered from a bag in any order, dropped, duplicated; takes and clock jumps interleaved. After every take the hand-over history is checked: strictly increasing and at most once per writer (S1), no hole that was not declared unavailable (S2), payload/writer/SN/source timestamp equal to what was delivered (S3), nothing undelivered (S4). Evidence, not proof: a clean batch of ~4e5 (quick) / ~1e7 (thorough) runs.",
        design_ref="DESIGN.md section 5 C01, section 12",
        note="Trusted: harness' independent RTPS encoder, simulated clock/timer shim, the 3 mirrored lines advancing the read pointer (LocalReader::take_one). With two readers on one topic 'delivered'/'declared unavailable' are taken at topic level (shared receive cache). Reader stays inside its resource limits in all runs.",
        technique=TECH + "; hand-over history checked against a delivered-facts reference model",
    ),
    "C03": dict(
        engine="E1",
        category="exploration",
        text="Same simulated scenario as C01 with heartbeats of any first/last/count/final flag and missing-sets up to 700 wide; every datagram the reader node emits is captured at the transport seam, decoded by the harness' independent decoder and every ACKNACK/NACKFRAG is checked against a reference model of the reader's knowledge: base <= frontier, base monotone, listed SNs really missing and advertised, counts grow per kind, lowest missing SN requested (NACKFRAG with exactly the missing fragments when partially received).",
        design_ref="DESIGN.md section 5 C03, section 12",
        note="Reference model follows RTPS 2.5 8.4.12 acceptance rules; one named relaxation (assembly buffers idle >= 9.5 s when another DATAFRAG arrives are not asserted about). AckNack.count and NackFrag.count are checked as separate increasing sequences (RTPS keeps them separate).",
        technique=TECH + "; emitted ACKNACK/NACKFRAG checked against a reference model of reader knowledge",
    ),
    "C02": dict(
        engine="E1",
        category="exploration",
        text="Seeded deterministic simulation of a real reliable Writer node and 1-3 real Reader nodes over a simulated network with every protocol timer on simulated time. Phase 1 injects a seed-chosen finite fault pattern (random drop up to 50 %, duplication, jitter up to 500 ms, one-way and two-way partitions, burst loss of one submessage kind, targeted k-th-datagram drops) into a workload of plain and fragmented writes; phase 2 is fault-free. Oracle: bounded liveness (within 30 s + 2 s/sample after the last fault every sample still in the writer's history has been handed over byte-exact and the reader's frontier is last+1), then 5 s without any datagram; in-order/once/byte-exact hand-over is asserted throughout.",
        design_ref="DESIGN.md section 5 C02, section 12",
        note="Readers matched before the first write. Liveness bound calibrated on the repaired tree (worst observed recovery ~2.3 s, reported as max.recovery_ms). Found and fixed: NACKFRAG never reached the writer (fix commit 2112216).",
        technique=TECH + "; bounded-liveness and quiescence oracle after the faults stop",
    ),
    "C04": dict(
        engine="E1",
        category="exploration",
        text="Seeded simulation of the real Writer (history, reader proxies, repair, heartbeat, cache cleaning on the simulated 2-minute timer) against 0-4 scripted readers that send ACKNACKs with any non-decreasing base and any bitmap, answer heartbeats honestly or not at all, and are matched / lost (endpoint or participant) / re-matched at seed-chosen points; writes plain, fragmented and to_single_reader. After every step: (a) a sample leaves the history only if every matched reliable reader acknowledged it or depth forces it out, (b) history <= depth + unacknowledged after each cleaning, (c) every requested advertised SN answered within budget by exactly the written bytes (DATA or complete DATAFRAG set) or a GAP, (d) HEARTBEAT first/last exact, (e) single-reader samples never leave towards another reader.",
        design_ref="DESIGN.md section 5 C04, section 12",
        note="Scripted readers keep their ACKNACK base non-decreasing within a match (a real reader does, C03). KeepAll without ResourceLimits has no limit, so clause (b) is asserted for KeepLast(1-5). Found and fixed: history never trimmed without reliable readers / with ack beyond last (8911948); late joiner never GAPped for another reader's single-reader sample (a7f8b11).",
        technique=TECH + "; per-step invariants against a model of acknowledgments and outstanding requests",
    ),
    "C05": dict(
        engine="E1",
        category="exploration",
        text="Scripted-writer simulation biased to fragmented samples (sizes (n-1)*fs+r, r in {0,1,2,3,fs-1}; fs in {8,16,64,1024}; single and multi-fragment DATAFRAG; several samples/writers in flight; any order, loss, duplication, 11 s clock jumps across the assembly GC): a fragmented sample is handed over once, only after all of its fragments were delivered, byte-exact; neighbours stay byte-exact. Real-Writer fragmentation is exercised by the C02/C04 scenario.",
        design_ref="DESIGN.md section 5 C05, section 12",
        note="One fragment size per scripted writer (RTPS 8.4.14.1.1); 'all fragments arrived' uses superset knowledge (every fragment number delivered at some time).",
        technique=TECH + "; reassembled bytes compared with the written bytes",
    ),
    "C06": dict(
        engine="E1",
        category="exploration",
        text="Seeded deterministic simulation (engine E1) of a real event-loop node with a reliable reader, a best-effort reader and a reliable writer in the middle of ordinary traffic with well-behaved scripted peers. A hostile peer, matched as a writer of both readers and as a reader of the writer (worst case) or unmatched, injects at seed-chosen points datagrams that are random bytes, random submessages, or DATA / DATAFRAG / HEARTBEAT / GAP / HEARTBEAT_FRAG / ACKNACK / NACKFRAG / INFO_* whose sequence numbers, counts, bitmap sizes, fragment numbers and sizes, sample sizes and parameter lengths are drawn from {0, 1, -1, current +- k, 2^31, 2^32, 2^62, max, min}, inconsistent combinations (fragment size changing within a sample, fragments beyond the sample size, number sets wider than 256), byte flips, truncation and trailing junk, up to 40 submessages per datagram. Every call into the node is metered: thread CPU time <= 0.3 s and allocator requests <= 4 MiB + 64 x datagram size (largest single request 4 MiB); a panic in any thread, an abort (allocations above 2 GiB are refused deterministically) or a hang (wall-clock watchdog, 5 s) ends the run with its decision list. At the end the well-behaved writers' samples were handed over complete, in order and byte-exact, and the local writer still serves an honest reader's request with the written bytes.",
        design_ref="DESIGN.md section 5 C06, section 12",
        note="The hostile peer never uses a well-behaved peer's GUID. Built with overflow checks and debug assertions (arithmetic overflow on a wire value is a panic). One run in 40 is the discovery variant on engine E2: a whole participant is sent SPDP / SEDP / participant-message DATA whose PL_CDR parameter lists lie about parameter, string and list lengths, are truncated, overwritten, carry unknown and duplicated parameters or lack the sentinel, in both byte orders, by a participant it knows; a panic in any of its threads, a hang or an abort ends the run, and a well-behaved participant that appears in the middle must still be discovered and its writer matched (no CPU/allocation meters in this variant). The DataReader-level deserialisation of user payloads is C09's subject. Found and fixed: 9ebfe5a (fragment reassembly trusted claimed sizes: gigabyte allocations, overflow panics), a89ad76 (unbounded iteration/collection over HEARTBEAT/GAP ranges, overflow near the numeric limits, locator list allocated by wire count).",
        technique=TECH + "; hostile-datagram injection with per-call CPU and allocation meters, panic/abort/hang capture, and an end-to-end oracle for the well-behaved traffic",
    ),
    "C07": dict(
        engine="E2",
        category="exploration",
        text="Seeded deterministic simulation of 2-3 whole DomainParticipants (engine E2) through the public API only: a seed-chosen interleaving of creating participants, TransientLocal/Volatile reliable KeepAll writers and readers (up to 3+3), writing values (8 B to 3 KiB, every residue mod 4 around the 1024 B fragment size) and disposes, taking, deleting readers/writers/participants and letting time pass, under datagram loss up to 30 %, duplication, jitter, partitions that heal and participants that stall for up to 4 s. Then the faults stop and, within 90 simulated seconds, every compatible pair must deliver a probe sample written 10 s later (bounded liveness of discovery+matching in every creation order); streams are in order and unaltered at all times and complete (TransientLocal pair: whole retained history; otherwise everything since the first delivered sample); Volatile/TransientLocal incompatible pairs are never matched; a reader receives nothing that was certainly history when it was created unless both sides are TransientLocal; deleted endpoints/participants are seen by matched peers as unmatch/lost events.",
        design_ref="DESIGN.md section 5 C07, section 12",
        note="Security off in this check. Pairs whose SPDP traffic had a gap > 5 s or that saw an unmatch are only held to order/content. 'History' excludes anything possibly in flight (written < 1 s before, or a loss/duplicate/stall since). Found and fixed: late-created local endpoints never matched with already discovered remote ones (72e1504); SEDP samples dropped by the participant filter on rediscovery (e3c29df). Known findings (reported, exit 0): TransientLocal writer hands history to a Volatile reader; history showing through the per-participant shared receive cache to a new sibling reader.",
        technique=TECH + "; whole-participant simulation, bounded-liveness and stream-completeness oracles over the public API",
    ),
    "C08": dict(
        engine="E2",
        category="exploration",
        text="Model-based simulation on engine E2: a real DataReader (KeepAll / KeepLast(1-3)) behind real discovery receives seed-generated values and disposes (by key, by known key hash) for 1-4 instances in the name of 1-3 silent real writers; arrivals are interleaved by the seed with read / take / read_next_sample / take_next_sample / read_instance / take_instance (This/Next/None) / iterator / into_iterator / conditional iterators, ReadCondition any / not_read, max_samples 0/1/2/all. Every returned collection is compared with a sequential reference model of DDS 1.4 2.2.2.5.1: which samples, sample state, instance state, generation counts, view state of the most recent sample per instance, per-writer SN order, take removes / read retains, depth eviction.",
        design_ref="DESIGN.md section 5 C08, section 8, section 12",
        note="Weak end of the family (the only scheduling freedom is when arrivals become visible relative to calls). When several writers have pending changes the model ingests in the reader's order (writer GUID, SN). Truncated results: any correctly sized subset in per-writer order. Ranks not compared. Found and fixed: stale per-instance index after take (b7b4d2b); generation-viewed mark going backwards (a137c59).",
        technique=TECH + "; call-by-call comparison with a sequential reference model of DDS read/take semantics",
    ),
    "C09": dict(
        engine="E2",
        category="exploration",
        text="Seeded deterministic simulation of whole DomainParticipants (engine E2: the real event-loop and discovery threads run under a baton scheduler on simulated time and a simulated network). A real reader participant is matched through real discovery with real writers of a second participant, which then goes silent; a scripted peer speaks with the writers' GUIDs and sends, at every position including the head of the queue, undecodable CDR, unknown representation ids, key-only disposes with undecodable key, disposes by known and by never-seen key hash (also in runs of 12-52 while the application is busy), among intelligible values and disposes, for reliable/best-effort, with_key/no_key readers. The cache is drained through DataReader::take / take_next_sample / into_iterator / async stream and no_key SimpleDataReader try_take_one / async stream, interleaved with arrivals. Oracle: every call returns (wall-clock watchdog on the forked run), at most one error per bad change, every intelligible change of every writer delivered once, in order.",
        design_ref="DESIGN.md section 5 C09, section 12",
        note="Hang detection is wall clock (10 s per run in a forked child); the watchdog reports the decisions drawn so far as the replay. Found and fixed: endless loop on dispose-by-unknown-key-hash (f46dea5).",
        technique=TECH + "; whole-participant simulation with scripted wire traffic and a delivered-once-in-order oracle",
    ),
    "C11": dict(
        engine="E2",
        category="exploration",
        text="Seeded deterministic simulation (engine E2) of one real DomainParticipant with 2-4 local readers/writers (reliable or best-effort, Volatile or TransientLocal, topics T and U, created and deleted during the run) and two scripted remote participants with up to 3 writers and 3 readers each, driving real Discovery over the simulated network: SEDP announce, re-announce with the same QoS, endpoint dispose, participant dispose, silence beyond the 1 s lease (time-out, endpoints parked) and reappearance. After every discovery event and a settle, for every local endpoint the set reconstructed from its SubscriptionMatched / PublicationMatched events must equal {announced by a currently known participant or local, same topic, request/offered compatible}; every matched event changes the set by exactly one member that was (not) in it, carries current = size of the set and a total that never decreases and grows by the positive changes only; an incompatible endpoint is reported by an incompatible-QoS event and never matched; re-announcements change nothing; the endpoints of a lost participant are all unmatched within the settle window and matched again when a timed-out participant reappears.",
        design_ref="DESIGN.md section 5 C11, section 12",
        note="The per-endpoint status channel holds 4 events: a local endpoint that received 4 or more events in one collection (or was created with more than 3 matches due at once) is not observed any further in that run (counted as probe.*). Compatibility in the model covers reliability and durability only (C10 is a pure function, see not_applicable). Repeated incompatible-QoS events for one endpoint (one per re-notification) are not asserted about.",
        technique=TECH + "; matched sets reconstructed from status events compared with a model of what is currently announced after every discovery event",
    ),
    "C12": dict(
        engine="E2",
        category="exploration",
        text="Seeded deterministic simulation (engine E2) of one real DomainParticipant, observed through its public status events, and two scripted remote participants on the simulated network and clock. B advertises a lease from {absent, 0.5 s, 1 s, 3 s, 10 s, infinite} and follows a seed-chosen sequence of fresh announcements, re-sent announcements (same sequence number, RTPS 8.5.3.3), silences of 0.1/0.5/0.9/1.2 x lease, lease - 30 ms, lease + 2.5 s, 3 x lease or 70 s, disposes and SEDP announcements of a writer and a reader, at a seed-chosen phase of the 2 s clean-up tick, in either byte order, to the multicast or the unicast locator; C announces every second with a 3 s lease throughout. After every 1-10 ms slice: a Timeout loss only if nothing had arrived for longer than the advertised lease (100 s when absent), never with an infinite lease; a loss at the latest lease + clean-up period + 0.3 s after the last arrival; a dispose reported as Disposed within 0.3 s; every (re)appearance reported as discovered within 0.3 s; the participant's endpoints unmatched from the local reader and writer within 0.3 s of the loss and matched again within 1 s when a timed-out participant reappears; C is never lost and, when it has endpoints, they stay matched.",
        design_ref="DESIGN.md section 5 C12, section 12",
        note="Signs of life are SPDP DATA submessages (fresh or re-sent); ParticipantMessage liveliness assertions are not exercised (RustDDS applies them to writer liveliness only). The scripted participants' payload bytes come from RustDDS' own PL_CDR serialisers. Found and fixed: default lease 60 s instead of RTPS' 100 s (2a7d23c); a timed-out participant re-sending its announcement under the same sequence number was never rediscovered (d171d61); endpoints of a reappeared participant not rematched (ceba711, found by C07).",
        technique=TECH + "; timed obligations (safety and bounded liveness) on status events against a lease model on the simulated clock",
    ),
    "C13": dict(
        engine="E2",
        category="exploration",
        text="Seeded deterministic simulation (engine E2) of a real writer participant and a real reader participant, matched through real discovery, over a network with loss up to 20 %, duplication and jitter. The application is parked between readiness signals: it touches the reader, or re-polls a future, only after its waker was invoked or its mio source reported readable. Consumer forms: DataReader async sample stream, bare stream, no_key stream, SimpleDataReader stream (a task re-polled only when woken), mio-0.6 readiness (blocking shim Poll that drives the simulated world), mio-0.8 readiness (the real socketpair source under a real zero-timeout mio-0.8 Poll), each followed by take-until-empty; writer side: async_write against a command queue filled behind a stalled event loop, async_wait_for_acknowledgments (also asked for with a full command queue while the reader cannot be heard: it must stay pending), and wait_for_acknowledgments with a timeout (reader reachable or cut off). In a quarter of the reliable consumer runs the writer keeps only its last 1-2 samples and two chosen samples are lost in every transmission; in half of the reliable runs an epilogue follows in which a scripted peer speaks in the silent writer's name (a sample behind a hole, then a HEARTBEAT that closes the hole and announces one more). Oracle: at seed-chosen moments in the middle of the run, right after the parked application was served and before the world moves on, an unconditional look must find nothing (a wake-up that only later traffic makes up for is lost); 30 simulated seconds after the last write and fault every sample has reached the application, in order and unaltered; when not, one unconditional look tells a lost wake-up (the samples were there) from failed delivery; a pending future completes within 30 s once its condition holds; the synchronous wait never answers true without a possible acknowledgment, false not before its timeout, and not late.",
        design_ref="DESIGN.md section 5 C13, section 12",
        note="Interleaving granularity is the event loop's poll turn (seed-chosen prefixes of its pending events), datagram delivery order and the time slices between application steps. The lock-release granularity named in the property's quantifier would need yield hooks inside RustDDS (planned hook H6) and was not built: a race that needs a preemption between two statements of one event-loop turn is outside what this check can reach. Found and fixed: AsyncWaitForAcknowledgments answered Pending without leaving a waker anywhere (8d2c580); the shared reliably-received mark (97abd8e); a sibling's DataReader not woken when the Reader that was behind caught up (0902b04).",
        technique=TECH + "; parked-application executor (re-poll only when woken / readable) with a bounded-liveness oracle and a lost-wake-up discriminator",
    ),
    "C17": dict(
        engine="E3",
        category="exploration",
        text="Seeded deterministic simulation (engine E3 on E1): a real MessageReceiver/Reader/Writer node of a secure participant L carrying the real builtin security plugins (signed governance and permissions fixtures: rtps_protection_kind NONE / SIGN / ENCRYPT / with origin authentication; eight topics covering metadata protection NONE / SIGN / ENCRYPT / with origin authentication and data protection NONE / SIGN / ENCRYPT), 2-5 user readers, 0-2 writers and, in domains with RTPS-level protection, the participant discovery reader (exempt) and the publication discovery reader (not exempt), matched with endpoints of a second, authenticated plugin set R (handshake, permission validation and key exchange by plugin calls). The simulator owns the wire: 10-40 messages of DATA / DATAFRAG / HEARTBEAT / GAP / ACKNACK with explicit or unknown entity ids and INFO_TS / INFO_DST / INFO_SRC in between; each submessage and payload unprotected, protected by R as demanded, or protected with the keys of another endpoint pair; wrappers made up by somebody without keys (a prefix seen on the wire with another transformation kind around plaintext); a writer of a third participant with the entity id of one of R's writers; secure prefix / body / postfix dropped, doubled, swapped, replaced by or mixed with parts of earlier messages and plaintext; bits flipped in key ids, nonces, MACs, ciphertext and signed content; sent plain or inside R's RTPS-level protection (intact or damaged), under R's or another GUID prefix. Oracle: a reference model computes, per message and endpoint, whether the message contains anything protected by R for exactly that endpoint pair at every level the governance demands (an over-approximation of what may be accepted); every endpoint with a protection requirement for which it contains nothing of the kind is bit-for-bit unchanged by the message (writer/reader proxies, counters, assembly buffers, receive cache compared before and after); honest traffic for a topic without protection, and plain traffic for the exempt participant discovery reader, is delivered. The model goes by what the signed documents say, not by the attributes the plugins derived from them.",
        design_ref="DESIGN.md section 5 C17, section 12",
        note="Of the three exempt bootstrap topics only participant discovery is on the node (the stateless and the key-exchange reader are not), with publication discovery as the non-exempt built-in neighbour. SecureDiscovery is replaced by the sequence of plugin calls it makes (mirrored in /verif/facade/secnode.rs). Honest fully protected traffic is delivered in all runs (probe honest_protected_delivered), so the model's 'acceptable' sets are not vacuous; a run whose first honest protected sample does not arrive is a harness error. Damaged bytes are placed where cryptography covers them; bytes a receiver may ignore are C16's subject. Sensitivity: nine hand-made changes to the gates in message_receiver.rs (wrong protection set consulted, RTPS-level flag not set, crypto-handle/destination check skipped, reader-submessage gate, payload-decode fallback, unknown-entity-id filter, fall-through after a broken triple, exemption list widened, participant discovery not exempt) are all reported within 20000 runs (DESIGN.md 12.8). No defect found on the tree.",
        technique=TECH + "; real receiver with real security plugins, simulator-owned wire (protection removal, mis-keying, sequencing faults, replay, bit flips), before/after state comparison against a reference model of acceptable traffic",
        replay="target-sec/debug/dst replay {path} -v",
    ),
    "C19": dict(
        engine="E3",
        category="exploration",
        text="Seeded deterministic simulation (engine E3) of the authentication handshake between real AuthenticationBuiltin plugin instances whose identities come from fixture files (participant1: the shipped certificate; participant2: issued with the shipped Identity CA key; an outsider with the same subject certified by another CA). The simulator owns the channel: before each of the three genuine messages it injects 0-3 of {a copy with one field altered (bit flip, cut, emptied, removed, replaced by the same field of another message, class id changed), a replay of an earlier message of this or an earlier session, the wrong message of the session for this point, a request or a certificate of a foreign-CA participant (with the subject name of either genuine participant, its own or the genuine initiator's participant data), participant data whose GUID is not bound to the certificate}; when a foreign-CA request is answered the forger signs a final message with its own key; 0-3 stray (replayed or altered) messages follow completion; in half of the runs the outsider was seen in discovery first (other handle values, a third remote in the tables). Oracle: process_handshake answers Ok / OkFinalMessage only to the genuine message of the running session; after any rejected (or answered-but-forged) message the genuine message is still served, in the same session or after the handshake is started again (at most twice); when both sides are done their shared secrets and both challenges are identical and stay what they are under stray messages; no handshake ever completes with a foreign-CA identity and a participant only seen in discovery never holds a shared secret.",
        design_ref="DESIGN.md section 5 C19, section 12",
        note="Plugin level only: Discovery's ParticipantStatelessMessage plumbing, its related-message-identity filter and resend timers, and the crypto/access-control plugins are not in this engine (a whole-participant security smoke test, X02, showed the handshake completing but user data failing to decode in simulation; not resolved, see DESIGN.md 12.6). Leaving out a field the specification marks optional (hash_c1, hash_c2, echoed dh1/dh2) is not counted as an alteration. Answering an altered request is not counted as authentication (a request is not signed); what is required is that the genuine request is still answered. Built with the crate's `security` feature into /verif/target-sec. Found and fixed (3b1d761): any rejected message destroyed the handshake state (the genuine reply was then refused for ever; a stray message after completion cost the shared secret), and a forged request answered first blocked the genuine request.",
        technique=TECH + "; real plugin instances as parties with a simulator-owned channel (alteration, replay, reordering, forgery) and safety/liveness oracles on the plugin calls",
        replay="target-sec/debug/dst replay {path} -v",
    ),
    "C20": dict(
        engine="E1",
        category="exploration",
        text="Writer-level half of the property, in the same simulation as C04: WriterCommand::WaitForAcknowledgments with its completion channel, issued before/after writes, processed immediately or later, with ACKNACKs of any base (last, last+1, 0, beyond), reader match/loss while waiting and best-effort readers. Model: need = reliable readers matched when the writer takes the command and not yet past wait_until (= last SN written before the call). Success only if every needed reader acknowledged past wait_until or was lost (safety), and by the step that makes this true (promptness). The DataWriter API forms (timeout of the sync form, pending/completion of the async form) are the E2 part.",
        design_ref="DESIGN.md section 5 C20, section 12",
        note="Safety uses the lenient reading of a non-conformant ACKNACK base 0 (stored as 1 by the reader proxy), promptness the strict one, so the writer's two views of base 0 cannot alarm. One outstanding wait at a time.",
        technique=TECH + "; completion channel checked against an acknowledgment model after every step",
    ),
}

PURE = "%s is a pure function of its input (%s): it has no schedule, clock, fault, interleaving or multi-party behaviour for a simulation to decide. Deterministic simulation with fault injection does not apply (DESIGN.md sections 8 and 12.6); input generation dressed in simulator vocabulary is not offered instead."
NOT_APPLICABLE = {
    "C10": PURE % ("QosPolicies::compliance_failure_wrt", "a pair of QoS policy sets"),
    "C14": PURE % ("RTPS message serialisation/parsing", "a message value and a byte order") + " Incidental, unclaimed: every datagram real nodes emit in E1/E2 runs is decoded by the harness' independent codec.",
    "C15": PURE % ("PL_CDR (de)serialisation of discovery data", "a discovery data value, extra parameters and a byte order") + " Incidental, unclaimed: the scripted participants of C11/C12 are understood by real Discovery in both byte orders.",
    "C16": PURE % ("the cryptographic transform", "an encoded message, key material and one alteration"),
    "C18": PURE % ("signature verification and the permissions/governance decision", "a document and a query"),
}

ALL = ["C%02d" % i for i in range(1, 21)]

def main():
    checks = []
    for pid in ALL:
        if pid not in CHECKS:
            continue
        c = CHECKS[pid]
        checks.append({
            "property_id": pid,
            "quick_cmd": f"bin/check {pid} quick",
            "thorough_cmd": f"bin/check {pid} thorough",
            "evidence_file": f"/verif/evidence/{pid}.json",
            "replay_cmd_template": c.get("replay", "target/debug/dst replay {path} -v"),
            "engine": c["engine"],
            "level_claimed": {
                "category": c["category"],
                "text": c["text"],
                "design_ref": c["design_ref"],
            },
            "level_note": c["note"],
            "technique": c["technique"],
        })
    na = []
    for pid in ALL:
        if pid in CHECKS:
            continue
        reason = NOT_APPLICABLE.get(pid, "check not built yet in this round (see DESIGN.md section 9); not claimed")
        na.append({"property_id": pid, "reason": reason})
    m = {
        "version": 1,
        "setup_cmd": "bin/setup",
        "hooks": {
            "guard": "--cfg rustdds_verif (rustc cfg, never a cargo feature)",
            "enable": "checks build /verif/harness, which depends on the shadow manifest /verif/shadow/Cargo.toml ([lib] path=/repo/src/lib.rs) with RUSTFLAGS=--cfg rustdds_verif from /verif/harness/.cargo/config.toml; mio 0.6 and mio-extras are replaced by simulator shims there",
            "baseline_off_cmd": "cd /repo && cargo test --workspace --no-fail-fast --offline",
            "source_commits": hook_commits,
            "add_only": True,
        },
        "engines": [
            {"name": "E1", "path": "/verif/harness/src/props (scripted.rs, ...), /verif/facade/node.rs",
             "serves_properties": [p for p in ALL if p in CHECKS and CHECKS[p]["engine"].startswith("E1")],
             "kind_free_text": "single-threaded discrete-event simulation of real DPEventLoop/MessageReceiver/Reader/Writer objects with scripted or real peers over a simulated network"},
            {"name": "E2", "path": "/verif/simcore, /verif/shims, /verif/harness/src/e2",
             "serves_properties": [p for p in ALL if p in CHECKS and CHECKS[p]["engine"].startswith("E2")],
             "kind_free_text": "whole DomainParticipants (real threads parked at the simulated Poll, one baton) under a seeded scheduler"},
            {"name": "E3", "path": "/verif/facade/sec.rs, /verif/facade/secnode.rs, /verif/fixtures/sec, /verif/harness/src/props/c17.rs, c19.rs (built with the crate's security feature into /verif/target-sec)",
             "serves_properties": [p for p in ALL if p in CHECKS and CHECKS[p]["engine"].startswith("E3")],
             "kind_free_text": "real builtin security plugins (authentication, access control, cryptography) as communicating parties; the simulator is the channel between them (C19) or the wire in front of a real E1 receiver node that carries them (C17)"},
        ],
        "checks": checks,
        "not_applicable": na,
        "notes": "Exit codes: 0 held, 1 violation (VIOLATION line with replay file), 2 harness error (build failure, nondeterminism detected, coverage too thin). Default seed fixed (20260925); VERIF_SEED overrides. Known findings: /verif/known_findings.jsonl.",
    }
    json.dump(m, open("/verif/MANIFEST.json", "w"), indent=1)
    print("wrote MANIFEST.json with", len(checks), "checks;", len(na), "not claimed")

main()
