#!/usr/bin/env python3
"""import a confirmed seeded defect from /tmp/seedout/<id> into /verif/seeded/<id>/"""
import json, os, shutil, sys
sid, prop, detected_by, klass, needs = sys.argv[1:6]
src=f"/tmp/seedout/{sid}"; dst=f"/verif/seeded/{sid}"
os.makedirs(dst, exist_ok=True)
for f in ("patch.diff","demo.diff","notes.md"):
    if os.path.exists(f"{src}/{f}"): shutil.copy(f"{src}/{f}", f"{dst}/{f}")
conf=json.load(open(f"{src}/confirm.json"))
meta={
 "id": sid, "breaks_property": prop,
 "needs_to_manifest": needs,
 "origin": "fresh sub-agent given only the property text and a scratch worktree of /repo (nothing from /verif)",
 "confirmed_by_me": {
   "how": "bin/verify_seeded.py in scratch worktree /tmp/wt/verify: demo passes on HEAD, fails with patch; cargo test --workspace --offline passes with patch alone",
   "demo_tests": conf.get("demo_tests"), "demo_without_patch": conf.get("demo_without_patch"),
   "demo_with_patch": {k:v for k,v in conf.get("demo_with_patch",{}).items() if k!="tail"},
   "suite_with_patch": conf.get("suite_with_patch"), "confirmed": conf.get("confirmed"),
 },
 "detected_by_check": detected_by, "violation_class": klass,
 "how_run": f"bin/try_seeded /verif/seeded/{sid} {detected_by} (git -C /repo apply patch.diff; bin/check {detected_by} quick; git -C /repo checkout -- .)",
}
json.dump(meta, open(f"{dst}/meta.json","w"), indent=1)
print("imported", sid)
