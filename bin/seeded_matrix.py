#!/usr/bin/env python3
"""Re-runs every seeded defect under /verif/seeded against the current /repo tree
(apply patch, run the detecting check's quick command, revert) and writes
/verif/seeded/MATRIX.md.  usage: bin/seeded_matrix.py [ids...]"""
import json, os, subprocess, sys, glob, re
ids = sys.argv[1:] or sorted(os.path.basename(os.path.dirname(p)) for p in glob.glob('/verif/seeded/*/meta.json'))
rows=[]
for sid in ids:
    d=f'/verif/seeded/{sid}'
    meta=json.load(open(f'{d}/meta.json'))
    prop=meta['detected_by_check']
    st=subprocess.run(['git','-C','/repo','status','--porcelain','--untracked-files=no'],capture_output=True,text=True).stdout.strip()
    if st:
        print('/repo has uncommitted changes'); sys.exit(2)
    ap=subprocess.run(['git','-C','/repo','apply',f'{d}/patch.diff'],capture_output=True,text=True)
    if ap.returncode!=0:
        rows.append((sid,meta['breaks_property'],prop,'patch no longer applies','',meta.get('needs_to_manifest','')))
        print(sid,'patch no longer applies',flush=True); continue
    try:
        r=subprocess.run(['/verif/bin/check',prop,'quick','--no-evidence'],capture_output=True,text=True,timeout=3600)
        out=r.stdout+r.stderr
    finally:
        subprocess.run(['git','-C','/repo','checkout','--','.'])
    classes=re.findall(r'^\s+class=(\S+) seed=\d+ occurrences=(\d+)',out,re.M)
    known=set(re.findall(r'KNOWN-FINDING: property=\S+ class=(\S+)',out))
    new=[(c,n) for c,n in classes if c not in known]
    verdict='caught' if (r.returncode==1 and new) else ('MISSED' if r.returncode==0 else f'exit {r.returncode}')
    rows.append((sid,meta['breaks_property'],prop,verdict,', '.join(f'{c} x{n}' for c,n in new[:3]),meta.get('needs_to_manifest','')))
    print(sid,verdict,new[:2],flush=True)
if sys.argv[1:] and os.path.exists('/verif/seeded/MATRIX.md'):
    # partial run: keep the rows of the other ids
    old=[l for l in open('/verif/seeded/MATRIX.md').read().splitlines() if re.match(r'^\| C\d\d-\w+ \|',l)]
    keep=[tuple(c.strip() for c in l.strip('|').split(' | ')) for l in old]
    keep=[k for k in keep if k[0] not in {r[0] for r in rows} and len(k)==6]
    rows=sorted(keep+rows)
with open('/verif/seeded/MATRIX.md','w') as f:
    head=subprocess.run(['git','-C','/repo','rev-parse','--short','HEAD'],capture_output=True,text=True).stdout.strip()
    f.write(f'# Seeded defects against the checks (tree {head}, quick tier, default seed)\n\n')
    f.write(f'{sum(1 for r in rows if r[3]=="caught")} of {len(rows)} reported (verdict "caught" = the check named in the third column exits 1 with a VIOLATION line of a class that is not a known finding).\n\n')
    f.write('| id | breaks | check | verdict | violation classes reported (occurrences) | what it needs to manifest |\n|---|---|---|---|---|---|\n')
    for r in rows:
        f.write('| '+' | '.join(x.replace('|','/') for x in r)+' |\n')
print('wrote /verif/seeded/MATRIX.md')
