#!/usr/bin/env python3
"""Independent confirmation of seeded defects delivered under /tmp/seedout/<id>/:
in a scratch worktree: demo passes on HEAD, fails with the patch; the whole
suite passes with the patch alone.  Writes /tmp/seedout/<id>/confirm.json."""
import json, os, re, subprocess, sys
WT="/tmp/wt/verify"
FEAT=os.environ.get("VERIFY_FEATURES","")  # e.g. "--features security" for demos behind that feature
def sh(cmd, cwd=WT, timeout=3600):
    p=subprocess.run(cmd, shell=True, cwd=cwd, capture_output=True, text=True, timeout=timeout)
    return p.returncode, p.stdout+p.stderr
def reset():
    sh("git checkout -q -- . && git clean -qfd src")
def tests_in(demo):
    names=[]; lines=open(demo).read().splitlines()
    for i,l in enumerate(lines):
        if l.startswith('+') and '#[test]' in l:
            for j in range(i+1,min(i+6,len(lines))):
                m=re.search(r'fn\s+([a-zA-Z0-9_]+)\s*\(', lines[j])
                if m: names.append(m.group(1)); break
    return names
def run_tests(names):
    # returns (passed, failed) counts over the named tests
    ok=0; bad=0; out_all=""
    for n in names:
        rc,out=sh(f"cargo test --lib --offline {FEAT} {n} 2>&1 | tail -15")
        out_all+=out
        m=re.search(r'test result: (\w+)\. (\d+) passed; (\d+) failed', out)
        if m and m.group(1)=='ok' and int(m.group(2))>=1: ok+=1
        else: bad+=1
    return ok,bad,out_all[-1500:]
def main(ids):
    if not os.path.isdir(WT):
        subprocess.run(["git","-C","/repo","worktree","add","-q","--detach",WT,"HEAD"],check=True)
    for sid in ids:
        d=f"/tmp/seedout/{sid}"
        res={"id":sid}
        try:
            reset()
            names=tests_in(f"{d}/demo.diff")
            res["demo_tests"]=names
            rc,out=sh(f"git apply {d}/demo.diff"); assert rc==0, "demo does not apply: "+out
            ok,bad,tail=run_tests(names)
            res["demo_without_patch"]={"passed":ok,"failed":bad}
            rc,out=sh(f"git apply {d}/patch.diff"); assert rc==0, "patch does not apply: "+out
            ok2,bad2,tail2=run_tests(names)
            res["demo_with_patch"]={"passed":ok2,"failed":bad2,"tail":tail2[-600:]}
            reset()
            rc,out=sh(f"git apply {d}/patch.diff"); assert rc==0
            rc,out=sh("cargo test --workspace --no-fail-fast --offline 2>&1 | grep -E '^test result|FAILED|^error' | tail -6")
            res["suite_with_patch"]=out.strip().splitlines()
            res["confirmed"]= (bad==0 and ok>=1 and bad2>=1 and all('ok.' in l for l in res["suite_with_patch"] if l.startswith('test result')) and len(res["suite_with_patch"])>=1)
        except Exception as e:
            res["error"]=str(e); res["confirmed"]=False
        reset()
        json.dump(res, open(f"{d}/confirm.json","w"), indent=1)
        print(sid, "confirmed" if res["confirmed"] else "NOT CONFIRMED", res.get("error",""), flush=True)
main(sys.argv[1:])
