//! child module of `structure::dds_cache`
use super::TopicCache;
use crate::{
  dds::ddsdata::DDSData,
  verif::types::{ChangeData, ChangeView, TopicCacheView},
};
use super::CacheChange;
use crate::structure::time::Timestamp;

pub(crate) fn change_view(ts: Timestamp, cc: &CacheChange) -> ChangeView {
  ChangeView {
    receive_ticks: ts.to_ticks(),
    writer: cc.writer_guid.to_bytes(),
    sn: i64::from(cc.sequence_number),
    source_ticks: cc.write_options.source_timestamp().map(|t| t.to_ticks()),
    data: match &cc.data_value {
      DDSData::Data { serialized_payload } => ChangeData::Data {
        rep_id: serialized_payload.representation_identifier.bytes,
        rep_opts: serialized_payload.representation_options,
        value: serialized_payload.value.to_vec(),
      },
      DDSData::DisposeByKey { key, .. } => ChangeData::DisposeByKey {
        rep_id: key.representation_identifier.bytes,
        value: key.value.to_vec(),
      },
      DDSData::DisposeByKeyHash { key_hash, .. } => ChangeData::DisposeByKeyHash {
        hash: {
          let v = key_hash.to_vec();
          let mut h = [0u8; 16];
          h.copy_from_slice(&v[..16]);
          h
        },
      },
    },
  }
}

impl TopicCache {
  pub(crate) fn verif_view(&self) -> TopicCacheView {
    TopicCacheView {
      changes: self.changes.iter().map(|(t, c)| change_view(*t, c)).collect(),
      reliable_before: self
        .received_reliably_before
        .keys()
        .map(|g| (g.to_bytes(), i64::from(self.reliable_before(*g))))
        .collect(),
    }
  }
}
