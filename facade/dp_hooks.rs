//! child module of `rtps::dp_event_loop`: steps of the event loop as calls of
//! its own private handlers (engine E1 replaces the ~40 lines of token
//! dispatch in `event_loop()` by these direct calls).
use mio_06::{Event, Ready};

use super::*;
use crate::verif::types::{ReaderView, WriterView};

impl DPEventLoop {
  pub(crate) fn verif_deliver(&mut self, bytes: &bytes::Bytes) {
    self.message_receiver.handle_received_packet(bytes);
  }

  pub(crate) fn verif_add_remove_readers(&mut self) {
    self.handle_reader_action(&Event::new(Ready::readable(), ADD_READER_TOKEN));
    self.handle_reader_action(&Event::new(Ready::readable(), REMOVE_READER_TOKEN));
  }

  pub(crate) fn verif_add_remove_writers(&mut self) {
    self.handle_writer_action(&Event::new(Ready::readable(), ADD_WRITER_TOKEN));
    self.handle_writer_action(&Event::new(Ready::readable(), REMOVE_WRITER_TOKEN));
  }

  pub(crate) fn verif_pump_acknacks(&mut self) {
    self.handle_writer_acknack_action(&Event::new(
      Ready::readable(),
      ACKNACK_MESSAGE_TO_LOCAL_WRITER_TOKEN,
    ));
  }

  /// same statements as the `TokenDecode::Entity(eid)` writer arm of `event_loop()`
  pub(crate) fn verif_writer_command(&mut self, eid: EntityId) {
    let local_readers = match self.writers.get_mut(&eid) {
      None => vec![],
      Some(writer) => {
        writer.process_writer_command();
        writer.local_readers()
      }
    };
    self.message_receiver.notify_data_to_readers(local_readers);
  }

  pub(crate) fn verif_reader_command(&mut self, eid: EntityId) {
    if let Some(r) = self.message_receiver.reader_mut(eid) {
      r.process_command();
    }
  }

  pub(crate) fn verif_writer_ids(&self) -> Vec<EntityId> {
    let mut v: Vec<EntityId> = self.writers.keys().copied().collect();
    v.sort();
    v
  }

  pub(crate) fn verif_reader_ids(&self) -> Vec<EntityId> {
    self.message_receiver.available_readers.keys().copied().collect()
  }

  pub(crate) fn verif_writer_timed_event(&mut self, eid: EntityId) {
    self.handle_writer_timed_event(eid);
  }

  pub(crate) fn verif_reader_timed_event(&mut self, eid: EntityId) {
    self.handle_reader_timed_event(eid);
  }

  pub(crate) fn verif_preemptive_acknacks(&mut self) {
    self.message_receiver.send_preemptive_acknacks();
  }

  pub(crate) fn verif_cache_gc(&mut self) {
    self.dds_cache.write().unwrap().garbage_collect();
  }

  pub(crate) fn verif_heartbeat_tick(&mut self, eid: EntityId, manual: bool) {
    if let Some(w) = self.writers.get_mut(&eid) {
      w.handle_heartbeat_tick(manual);
    }
  }

  pub(crate) fn verif_discovery(&mut self, n: DiscoveryNotificationType) {
    use DiscoveryNotificationType::*;
    // same dispatch as the DISCOVERY_UPDATE_NOTIFICATION_TOKEN arm of `event_loop()`
    match n {
      WriterUpdated {
        discovered_writer_data,
      } => self.remote_writer_discovered(&discovered_writer_data),
      WriterLost { writer_guid } => self.remote_writer_lost(writer_guid),
      ReaderUpdated {
        discovered_reader_data,
      } => self.remote_reader_discovered(&discovered_reader_data),
      ReaderLost { reader_guid } => self.remote_reader_lost(reader_guid),
      ParticipantUpdated { guid_prefix } => self.update_participant(guid_prefix),
      ParticipantLost { guid_prefix } => self.remote_participant_lost(guid_prefix),
      AssertTopicLiveliness {
        writer_guid,
        manual_assertion,
      } => {
        self
          .writers
          .get_mut(&writer_guid.entity_id)
          .map(|w| w.handle_heartbeat_tick(manual_assertion));
      }
      #[cfg(feature = "security")]
      ParticipantAuthenticationStatusChanged { guid_prefix } => {
        self.on_remote_participant_authentication_status_changed(guid_prefix);
      }
    }
  }

  pub(crate) fn verif_reader_view(&self, eid: EntityId) -> Option<ReaderView> {
    self
      .message_receiver
      .available_readers
      .get(&eid)
      .map(|r| r.verif_view())
  }

  pub(crate) fn verif_writer_view(&self, eid: EntityId) -> Option<WriterView> {
    self.writers.get(&eid).map(|w| w.verif_view())
  }

  pub(crate) fn verif_writer_history_payload(&self, eid: EntityId, sn: i64) -> Option<Vec<u8>> {
    self.writers.get(&eid).and_then(|w| w.verif_history_payload(sn))
  }

  /// the two public tuning fields of `Writer` (fragment size, byte order)
  pub(crate) fn verif_writer_tuning(
    &mut self,
    eid: EntityId,
    data_max_size_serialized: Option<usize>,
    big_endian: Option<bool>,
  ) {
    if let Some(w) = self.writers.get_mut(&eid) {
      if let Some(m) = data_max_size_serialized {
        w.data_max_size_serialized = m;
      }
      if let Some(be) = big_endian {
        w.endianness = if be {
          speedy::Endianness::BigEndian
        } else {
          speedy::Endianness::LittleEndian
        };
      }
    }
  }
}
