//! child module of `rtps::fragment_assembler`
use super::FragmentAssembler;

impl FragmentAssembler {
  pub(crate) fn verif_partial_sns(&self) -> Vec<i64> {
    self.assembly_buffers.keys().map(|s| i64::from(*s)).collect()
  }
}
