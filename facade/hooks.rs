//! Functions called from the `#[cfg(rustdds_verif)]` hook lines in /repo.

use std::net::SocketAddr;

use crate::structure::{locator::Locator, time::Timestamp};

pub fn sim_active() -> bool {
  simcore::is_active()
}

/// `Timestamp::now()` on the simulated wall clock (strictly increasing).
pub fn timestamp_now() -> Option<Timestamp> {
  if simcore::is_active() {
    Some(Timestamp::from_ticks(simcore::wall_ticks()))
  } else {
    None
  }
}

/// `UDPSender::send_to_locator`: capture the datagram for the simulated network.
pub fn udp_send(buffer: &[u8], locator: &Locator) -> bool {
  if !simcore::is_active() {
    return false;
  }
  match locator {
    Locator::UdpV4(a) => simcore::udp_send(SocketAddr::V4(*a), buffer),
    Locator::UdpV6(a) => simcore::udp_send(SocketAddr::V6(*a), buffer),
    _ => {} // the real code only logs for these kinds
  }
  true
}
