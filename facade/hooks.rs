//! Functions called from the `#[cfg(rustdds_verif)]` hook lines in /repo.

use std::net::SocketAddr;

use crate::structure::{locator::Locator, time::Timestamp};

pub fn sim_active() -> bool {
  simcore::is_active()
}

/// `Timestamp::now()` on the simulated wall clock (strictly increasing).
pub fn timestamp_now() -> Option<Timestamp> {
  if simcore::is_active() {
    Some(Timestamp::from_ticks(simcore::wall_ticks()))
  } else {
    None
  }
}

/// `UDPSender::send_to_locator`: capture the datagram for the simulated network.
pub fn udp_send(buffer: &[u8], locator: &Locator) -> bool {
  if !simcore::is_active() {
    return false;
  }
  match locator {
    Locator::UdpV4(a) => simcore::udp_send(SocketAddr::V4(*a), buffer),
    Locator::UdpV6(a) => simcore::udp_send(SocketAddr::V6(*a), buffer),
    _ => {} // the real code only logs for these kinds
  }
  true
}

// ---------------------------------------------------------------------------
// engine E2: whole participants under the baton scheduler
// ---------------------------------------------------------------------------

/// Shadow of `std::time::Instant` inside functions that read the monotonic
/// clock: `Instant::now()` is a fixed real instant plus simulated time, so all
/// differences are simulated durations (the value type stays std's `Instant`).
pub struct Instant;

static BASE_INSTANT: std::sync::OnceLock<std::time::Instant> = std::sync::OnceLock::new();

impl Instant {
  pub fn now() -> std::time::Instant {
    if simcore::is_active() {
      let base = *BASE_INSTANT.get_or_init(std::time::Instant::now);
      base + std::time::Duration::from_nanos(simcore::now_ns())
    } else {
      std::time::Instant::now()
    }
  }
}

/// Shadow of `chrono::Utc` (`Utc::now()` on the simulated wall clock).
pub struct Utc;
impl Utc {
  pub fn now() -> chrono::DateTime<chrono::Utc> {
    if simcore::is_active() {
      let ns = simcore::unix_ns();
      chrono::DateTime::<chrono::Utc>::from_timestamp(
        (ns / 1_000_000_000) as i64,
        (ns % 1_000_000_000) as u32,
      )
      .unwrap()
    } else {
      chrono::Utc::now()
    }
  }
}

/// Shadow of `std::thread` inside the two functions that spawn the background
/// threads and inside the busy-wait of `try_send_timeout`.
pub mod thread {
  pub use std::thread::JoinHandle;

  pub struct Builder {
    name: Option<String>,
  }

  impl Builder {
    #[allow(clippy::new_without_default)]
    pub fn new() -> Self {
      Builder { name: None }
    }
    pub fn name(mut self, name: String) -> Self {
      self.name = Some(name);
      self
    }
    /// a real OS thread, registered with the simulator and parked at entry:
    /// it only ever runs while it holds the baton
    pub fn spawn<F, T>(self, f: F) -> std::io::Result<JoinHandle<T>>
    where
      F: FnOnce() -> T + Send + 'static,
      T: Send + 'static,
    {
      if simcore::is_active() {
        simcore::spawn(self.name, f)
      } else {
        let mut b = std::thread::Builder::new();
        if let Some(n) = self.name {
          b = b.name(n);
        }
        b.spawn(f)
      }
    }
  }

  pub fn sleep(d: std::time::Duration) {
    if simcore::is_active() {
      simcore::sleep_ns(d.as_nanos().min(u64::MAX as u128) as u64);
    } else {
      std::thread::sleep(d);
    }
  }
}

/// Before a native blocking call of the application thread (thread join,
/// "discovery started" rendezvous): run the world until nothing is enabled at
/// the current simulated instant, so the native call returns at once.
pub fn drive_until_quiescent() {
  if simcore::is_active() {
    simcore::drive_until_quiescent();
  }
}

/// Before a native `JoinHandle::join` of the application thread.
pub fn before_join<T>(h: &std::thread::JoinHandle<T>) {
  if simcore::is_active() {
    simcore::drive_until_thread_exit(h.thread().id());
  }
}

/// `UDPListener::new_listening_socket`: a simulated socket on a logical port.
pub fn sim_listening_socket(
  port: u16,
  reuse_addr: bool,
) -> Option<std::io::Result<mio_06::net::UdpSocket>> {
  if simcore::is_active() {
    Some(mio_06::net::UdpSocket::sim_bind(port, reuse_addr))
  } else {
    None
  }
}

/// one fixed fake interface per simulated host
pub fn sim_unicast_locators(port: u16) -> Option<Vec<Locator>> {
  if simcore::is_active() {
    let ip = simcore::current_node_ip();
    Some(vec![Locator::from(SocketAddr::new(ip.into(), port))])
  } else {
    None
  }
}

pub fn sim_multicast_if_addrs() -> Option<Vec<std::net::IpAddr>> {
  if simcore::is_active() {
    Some(vec![simcore::current_node_ip().into()])
  } else {
    None
  }
}

pub fn yield_point(site: &'static str) {
  if simcore::is_active() {
    simcore::yield_point(site);
  }
}
