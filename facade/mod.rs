//! `rustdds::verif` — verification facade, compiled only with
//! `--cfg rustdds_verif` through the shadow manifest in /verif/shadow.
//!
//! The facade only constructs, steps and reads real RustDDS objects; it never
//! re-implements protocol behaviour.  Plumbing that mirrors `participant.rs` /
//! `pubsub.rs` channel wiring is marked `STUB-PLUMBING`.

pub mod hooks;
pub mod node;
pub mod pl;
#[cfg(feature = "security")]
pub mod sec;
#[cfg(feature = "security")]
pub mod secnode;
pub mod types;

pub use crate::{
  dds::{
    ddsdata::DDSData,
    statusevents::{DataReaderStatus, DataWriterStatus, DomainParticipantStatusEvent},
  },
  structure::{
    guid::{EntityId, EntityKind, GuidPrefix, GUID},
    locator::Locator,
    sequence_number::SequenceNumber,
  },
};
pub use node::*;
pub use types::*;
