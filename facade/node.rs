//! Engine E1 node: one real `DPEventLoop` (with its real `MessageReceiver`,
//! `Reader`s, `Writer`s, `DDSCache`, `DiscoveryDB`) owned by the harness and
//! stepped by direct calls of its own handlers.  No threads, no `Poll::poll`.
//!
//! STUB-PLUMBING: the channel wiring in `SimNode::new`, `add_reader` and
//! `add_writer` mirrors `DomainParticipantInner::new`,
//! `InnerSubscriber::create_simple_datareader_internal` and
//! `InnerPublisher::create_datawriter`.

use std::{
  collections::{BTreeMap, HashMap},
  net::SocketAddr,
  sync::{Arc, Mutex, RwLock},
  task::Waker,
};

use bytes::Bytes;
use mio_extras::channel as mio_channel;

use crate::{
  dds::{
    ddsdata::DDSData,
    qos::QosPolicies,
    statusevents::{
      sync_status_channel, DataReaderStatus, DataWriterStatus, DomainParticipantStatusEvent,
      StatusChannelReceiver,
    },
    typedesc::TypeDesc,
    with_key::{datawriter::WriteOptionsBuilder, simpledatareader::ReaderCommand},
  },
  discovery::{
    discovery::DiscoveryCommand,
    discovery_db::DiscoveryDB,
    sedp_messages::{
      DiscoveredReaderData, DiscoveredWriterData, PublicationBuiltinTopicData, ReaderProxy,
      SubscriptionBuiltinTopicData, WriterProxy,
    },
  },
  messages::submessages::elements::serialized_payload::SerializedPayload,
  mio_source,
  rtps::{
    constant::*,
    dp_event_loop::{DPEventLoop, DomainInfo, EventLoopCommand},
    reader::ReaderIngredients,
    writer::{WriterCommand, WriterIngredients},
  },
  structure::{
    cache_change::ChangeKind,
    dds_cache::{DDSCache, TopicCache},
    guid::{EntityId, GuidPrefix, GUID},
    locator::Locator,
    sequence_number::SequenceNumber,
    time::Timestamp,
  },
  verif::types::*,
  RepresentationIdentifier,
};
#[cfg(not(feature = "security"))]
use crate::no_security::SecurityPluginsHandle;
#[cfg(feature = "security")]
use crate::security::security_plugins::SecurityPluginsHandle;

pub struct SimNode {
  pub node_id: u32,
  pub prefix: GuidPrefix,
  ev: DPEventLoop,
  dds_cache: Arc<RwLock<DDSCache>>,
  #[allow(dead_code)]
  discovery_db: Arc<RwLock<DiscoveryDB>>,
  add_reader_tx: mio_channel::SyncSender<ReaderIngredients>,
  remove_reader_tx: mio_channel::SyncSender<GUID>,
  add_writer_tx: mio_channel::SyncSender<WriterIngredients>,
  remove_writer_tx: mio_channel::SyncSender<GUID>,
  #[allow(dead_code)]
  stop_tx: mio_channel::Sender<EventLoopCommand>,
  #[allow(dead_code)]
  disc_notif_tx: mio_channel::SyncSender<DiscoveryNotificationType>,
  #[allow(dead_code)]
  disc_cmd_rx: mio_channel::Receiver<DiscoveryCommand>,
  spdp_liveness_rx: mio_channel::Receiver<GuidPrefix>,
  participant_status_rx: StatusChannelReceiver<DomainParticipantStatusEvent>,
  #[allow(dead_code)]
  discovery_db_event_rx: mio_channel::Receiver<()>,
  /// the participant's security plugins (engine E3 nodes), handed to every Reader and Writer
  security: Option<SecurityPluginsHandle>,
}

pub struct LocalReader {
  pub guid: GUID,
  pub reliable: bool,
  topic_cache: Arc<Mutex<TopicCache>>,
  pub notification_rx: mio_channel::Receiver<()>,
  status_rx: StatusChannelReceiver<DataReaderStatus>,
  #[allow(dead_code)]
  cmd_tx: mio_channel::SyncSender<ReaderCommand>,
  pub waker_slot: Arc<Mutex<Option<Waker>>>,
  #[allow(dead_code)]
  event_source: mio_source::PollEventSource,
  // read pointers, advanced exactly as `SimpleDataReader::try_take_one_with` does
  last_read_sn: BTreeMap<GUID, SequenceNumber>,
  latest_instant: Timestamp,
}

pub struct LocalWriter {
  pub guid: GUID,
  cmd_tx: mio_channel::SyncSender<WriterCommand>,
  status_rx: StatusChannelReceiver<DataWriterStatus>,
  pub waker_slot: Arc<Mutex<Option<Waker>>>,
  next_sn: i64,
}

pub struct AckWait {
  rx: StatusChannelReceiver<()>,
}

impl AckWait {
  pub fn completed(&self) -> bool {
    self.rx.try_recv().is_ok()
  }
}

#[derive(Clone, Debug)]
pub enum WritePayload {
  /// representation identifier + payload bytes (the facade adds options = 0,0)
  Data { rep_id: [u8; 2], value: Vec<u8> },
  DisposeByKey { rep_id: [u8; 2], value: Vec<u8> },
  DisposeByKeyHash { hash: [u8; 16] },
}

pub fn guid_from(b: GuidBytes) -> GUID {
  GUID::from_bytes(b)
}

pub fn locators(addrs: &[SocketAddr]) -> Vec<Locator> {
  addrs.iter().map(|a| Locator::from(*a)).collect()
}

pub fn discovered_writer(
  writer: GuidBytes,
  topic: &str,
  type_name: &str,
  qos: &QosPolicies,
  unicast: &[SocketAddr],
  multicast: &[SocketAddr],
) -> DiscoveredWriterData {
  let guid = GUID::from_bytes(writer);
  let mut ptd = PublicationBuiltinTopicData::new(
    guid,
    Some(GUID::new(guid.prefix, EntityId::PARTICIPANT)),
    topic.to_string(),
    type_name.to_string(),
    None,
  );
  ptd.set_qos(qos);
  DiscoveredWriterData {
    last_updated: std::time::Instant::now(),
    writer_proxy: WriterProxy {
      remote_writer_guid: guid,
      unicast_locator_list: locators(unicast),
      multicast_locator_list: locators(multicast),
      data_max_size_serialized: None,
    },
    publication_topic_data: ptd,
  }
}

/// as `discovered_writer`, announced by the secure participant `party` (EndpointSecurityInfo from its
/// access control plugin, as `SecureDiscovery` puts it into the publication data)
#[cfg(feature = "security")]
pub fn discovered_writer_of(
  party: &crate::verif::secnode::SecParty,
  writer: GuidBytes,
  topic: &str,
  type_name: &str,
  qos: &QosPolicies,
  unicast: &[SocketAddr],
) -> DiscoveredWriterData {
  let mut d = discovered_writer(writer, topic, type_name, qos, unicast, &[]);
  d.publication_topic_data.security_info = party.writer_security_info(GUID::from_bytes(writer), topic);
  d
}

/// a writer of another participant (`announce`), on a topic for which it carries the same
/// EndpointSecurityInfo as `party`'s writer `attrs_of` (entity ids are unique per participant only)
#[cfg(feature = "security")]
pub fn discovered_writer_as(
  party: &crate::verif::secnode::SecParty,
  attrs_of: GuidBytes,
  announce: GuidBytes,
  topic: &str,
  type_name: &str,
  qos: &QosPolicies,
  unicast: &[SocketAddr],
) -> DiscoveredWriterData {
  let mut d = discovered_writer(announce, topic, type_name, qos, unicast, &[]);
  d.publication_topic_data.security_info = party.writer_security_info(GUID::from_bytes(attrs_of), topic);
  d
}

#[cfg(feature = "security")]
pub fn discovered_reader_of(
  party: &crate::verif::secnode::SecParty,
  reader: GuidBytes,
  topic: &str,
  type_name: &str,
  qos: &QosPolicies,
  unicast: &[SocketAddr],
) -> DiscoveredReaderData {
  let guid = GUID::from_bytes(reader);
  let mut std = SubscriptionBuiltinTopicData::new(
    guid,
    Some(GUID::new(guid.prefix, EntityId::PARTICIPANT)),
    topic.to_string(),
    type_name.to_string(),
    qos,
    party.reader_security_info(guid, topic),
  );
  std.set_qos(qos);
  DiscoveredReaderData {
    reader_proxy: ReaderProxy {
      remote_reader_guid: guid,
      expects_inline_qos: false,
      unicast_locator_list: locators(unicast),
      multicast_locator_list: vec![],
    },
    subscription_topic_data: std,
    content_filter: None,
  }
}

pub fn discovered_reader(
  reader: GuidBytes,
  topic: &str,
  type_name: &str,
  qos: &QosPolicies,
  unicast: &[SocketAddr],
  multicast: &[SocketAddr],
) -> DiscoveredReaderData {
  let guid = GUID::from_bytes(reader);
  let mut std = SubscriptionBuiltinTopicData::new(
    guid,
    Some(GUID::new(guid.prefix, EntityId::PARTICIPANT)),
    topic.to_string(),
    type_name.to_string(),
    qos,
    None,
  );
  std.set_qos(qos);
  DiscoveredReaderData {
    reader_proxy: ReaderProxy {
      remote_reader_guid: guid,
      expects_inline_qos: false,
      unicast_locator_list: locators(unicast),
      multicast_locator_list: locators(multicast),
    },
    subscription_topic_data: std,
    content_filter: None,
  }
}

impl SimNode {
  pub fn new(node_id: u32, prefix_bytes: [u8; 12], domain_id: u16) -> Self {
    Self::new_inner(node_id, prefix_bytes, domain_id, None)
  }

  /// a node of a secure participant: GUID prefix and plugins of `party`
  #[cfg(feature = "security")]
  pub fn new_secure(node_id: u32, party: &crate::verif::secnode::SecParty, domain_id: u16) -> Self {
    Self::new_inner(node_id, party.prefix_bytes(), domain_id, Some(party.handle.clone()))
  }

  fn new_inner(
    node_id: u32,
    prefix_bytes: [u8; 12],
    domain_id: u16,
    security: Option<SecurityPluginsHandle>,
  ) -> Self {
    simcore::set_node(node_id);
    let prefix = GuidPrefix::new(&prefix_bytes);
    let participant_guid = GUID::new(prefix, EntityId::PARTICIPANT);

    let (add_reader_tx, add_reader_rx) = mio_channel::sync_channel::<ReaderIngredients>(100);
    let (remove_reader_tx, remove_reader_rx) = mio_channel::sync_channel::<GUID>(4);
    let (add_writer_tx, add_writer_rx) = mio_channel::sync_channel::<WriterIngredients>(10);
    let (remove_writer_tx, remove_writer_rx) = mio_channel::sync_channel::<GUID>(4);
    let (stop_tx, stop_rx) = mio_channel::channel();
    let (disc_notif_tx, disc_notif_rx) = mio_channel::sync_channel::<DiscoveryNotificationType>(32);
    let (disc_cmd_tx, disc_cmd_rx) = mio_channel::sync_channel::<DiscoveryCommand>(64);
    let (spdp_liveness_tx, spdp_liveness_rx) = mio_channel::sync_channel(8);
    let (participant_status_tx, participant_status_rx) =
      sync_status_channel(64).expect("status channel");
    let (discovery_db_event_tx, discovery_db_event_rx) = mio_channel::sync_channel::<()>(1);

    let dds_cache = Arc::new(RwLock::new(DDSCache::new()));
    let discovery_db = Arc::new(RwLock::new(DiscoveryDB::new(
      participant_guid,
      discovery_db_event_tx,
      participant_status_tx.clone(),
    )));

    let ev = DPEventLoop::new(
      DomainInfo {
        domain_participant_guid: participant_guid,
        domain_id,
        participant_id: node_id as u16,
      },
      dds_cache.clone(),
      HashMap::new(),
      discovery_db.clone(),
      prefix,
      TokenReceiverPair {
        token: ADD_READER_TOKEN,
        receiver: add_reader_rx,
      },
      TokenReceiverPair {
        token: REMOVE_READER_TOKEN,
        receiver: remove_reader_rx,
      },
      TokenReceiverPair {
        token: ADD_WRITER_TOKEN,
        receiver: add_writer_rx,
      },
      TokenReceiverPair {
        token: REMOVE_WRITER_TOKEN,
        receiver: remove_writer_rx,
      },
      stop_rx,
      disc_notif_rx,
      disc_cmd_tx,
      spdp_liveness_tx,
      participant_status_tx,
      security.clone(),
    );

    SimNode {
      node_id,
      prefix,
      ev,
      dds_cache,
      discovery_db,
      add_reader_tx,
      remove_reader_tx,
      add_writer_tx,
      remove_writer_tx,
      stop_tx,
      disc_notif_tx,
      disc_cmd_rx,
      spdp_liveness_rx,
      participant_status_rx,
      discovery_db_event_rx,
      security,
    }
  }

  /// commands the event loop sent to Discovery (key exchange requests of a secure node); drained so
  /// that the channel never fills
  pub fn drain_discovery_commands(&mut self) -> usize {
    let mut n = 0;
    while self.disc_cmd_rx.try_recv().is_ok() {
      n += 1;
    }
    n
  }

  fn enter(&self) {
    simcore::set_node(self.node_id);
  }

  pub fn guid_of(&self, entity_id: [u8; 4]) -> GuidBytes {
    GUID::new(self.prefix, EntityId::from_slice(entity_id)).to_bytes()
  }

  pub fn add_reader(
    &mut self,
    entity_id: [u8; 4],
    topic: &str,
    type_name: &str,
    qos: &QosPolicies,
  ) -> LocalReader {
    self.enter();
    let guid = GUID::new(self.prefix, EntityId::from_slice(entity_id));
    let topic_cache = self.dds_cache.write().unwrap().add_new_topic(
      topic.to_string(),
      TypeDesc::new(type_name.to_string()),
      qos,
    );
    let (notification_tx, notification_rx) = mio_channel::sync_channel::<()>(4);
    let (status_tx, status_rx) = sync_status_channel::<DataReaderStatus>(64).unwrap();
    let (cmd_tx, cmd_rx) = mio_channel::sync_channel::<ReaderCommand>(0);
    let waker_slot = Arc::new(Mutex::new(None));
    let (event_source, event_sender) = mio_source::make_poll_channel().unwrap();

    let ing = ReaderIngredients {
      guid,
      notification_sender: notification_tx,
      status_sender: status_tx,
      topic_name: topic.to_string(),
      topic_cache_handle: topic_cache.clone(),
      like_stateless: false,
      qos_policy: qos.clone(),
      data_reader_command_receiver: cmd_rx,
      data_reader_waker: waker_slot.clone(),
      poll_event_sender: event_sender,
      security_plugins: self.security.clone(),
    };
    self
      .add_reader_tx
      .try_send(ing)
      .unwrap_or_else(|_| panic!("add reader channel"));
    self.ev.verif_add_remove_readers();

    LocalReader {
      guid,
      reliable: qos.is_reliable(),
      topic_cache,
      notification_rx,
      status_rx,
      cmd_tx,
      waker_slot,
      event_source,
      last_read_sn: BTreeMap::new(),
      latest_instant: Timestamp::ZERO,
    }
  }

  pub fn remove_reader(&mut self, guid: GuidBytes) {
    self.enter();
    let _ = self.remove_reader_tx.try_send(GUID::from_bytes(guid));
    self.ev.verif_add_remove_readers();
  }

  pub fn add_writer(&mut self, entity_id: [u8; 4], topic: &str, qos: &QosPolicies) -> LocalWriter {
    self.enter();
    let guid = GUID::new(self.prefix, EntityId::from_slice(entity_id));
    let (cmd_tx, cmd_rx) = mio_channel::sync_channel::<WriterCommand>(16);
    let waker_slot = Arc::new(Mutex::new(None));
    let (status_tx, status_rx) = sync_status_channel(64).unwrap();
    let ing = WriterIngredients {
      guid,
      writer_command_receiver: cmd_rx,
      writer_command_receiver_waker: waker_slot.clone(),
      topic_name: topic.to_string(),
      like_stateless: false,
      qos_policies: qos.clone(),
      status_sender: status_tx,
      security_plugins: self.security.clone(),
    };
    self
      .add_writer_tx
      .try_send(ing)
      .unwrap_or_else(|_| panic!("add writer channel"));
    self.ev.verif_add_remove_writers();
    LocalWriter {
      guid,
      cmd_tx,
      status_rx,
      waker_slot,
      next_sn: 1,
    }
  }

  pub fn remove_writer(&mut self, guid: GuidBytes) {
    self.enter();
    let _ = self.remove_writer_tx.try_send(GUID::from_bytes(guid));
    self.ev.verif_add_remove_writers();
  }

  // ---- steps ---------------------------------------------------------------

  pub fn deliver(&mut self, bytes: &[u8]) {
    self.enter();
    self.ev.verif_deliver(&Bytes::copy_from_slice(bytes));
  }

  pub fn pump_acknacks(&mut self) {
    self.enter();
    self.ev.verif_pump_acknacks();
  }

  pub fn writer_command(&mut self, w: &LocalWriter) {
    self.enter();
    self.ev.verif_writer_command(w.guid.entity_id);
  }

  /// let every writer and reader of this node handle its due timed events
  pub fn fire_timers(&mut self) {
    self.enter();
    for eid in self.ev.verif_writer_ids() {
      self.ev.verif_writer_timed_event(eid);
    }
    for eid in self.ev.verif_reader_ids() {
      self.ev.verif_reader_timed_event(eid);
    }
  }

  pub fn preemptive_acknacks(&mut self) {
    self.enter();
    self.ev.verif_preemptive_acknacks();
  }

  pub fn cache_gc(&mut self) {
    self.enter();
    self.ev.verif_cache_gc();
  }

  pub fn heartbeat_tick(&mut self, w: &LocalWriter, manual: bool) {
    self.enter();
    self.ev.verif_heartbeat_tick(w.guid.entity_id, manual);
  }

  pub fn writer_tuning(&mut self, w: &LocalWriter, frag_size: Option<usize>, big_endian: Option<bool>) {
    self.ev.verif_writer_tuning(w.guid.entity_id, frag_size, big_endian);
  }

  // ---- discovery notifications (what Discovery would send) -------------------

  pub fn remote_writer_discovered(&mut self, d: DiscoveredWriterData) {
    self.enter();
    self.ev.verif_discovery(DiscoveryNotificationType::WriterUpdated {
      discovered_writer_data: d,
    });
  }

  pub fn remote_reader_discovered(&mut self, d: DiscoveredReaderData) {
    self.enter();
    self.ev.verif_discovery(DiscoveryNotificationType::ReaderUpdated {
      discovered_reader_data: d,
    });
  }

  pub fn remote_writer_lost(&mut self, g: GuidBytes) {
    self.enter();
    self.ev.verif_discovery(DiscoveryNotificationType::WriterLost {
      writer_guid: GUID::from_bytes(g),
    });
  }

  pub fn remote_reader_lost(&mut self, g: GuidBytes) {
    self.enter();
    self.ev.verif_discovery(DiscoveryNotificationType::ReaderLost {
      reader_guid: GUID::from_bytes(g),
    });
  }

  pub fn remote_participant_lost(&mut self, prefix: [u8; 12]) {
    self.enter();
    self.ev.verif_discovery(DiscoveryNotificationType::ParticipantLost {
      guid_prefix: GuidPrefix::new(&prefix),
    });
  }

  // ---- observers -------------------------------------------------------------

  pub fn reader_view(&self, r: &LocalReader) -> Option<ReaderView> {
    self.ev.verif_reader_view(r.guid.entity_id)
  }

  pub fn writer_view(&self, w: &LocalWriter) -> Option<WriterView> {
    self.ev.verif_writer_view(w.guid.entity_id)
  }

  pub fn writer_view_by_eid(&self, eid: [u8; 4]) -> Option<WriterView> {
    self.ev.verif_writer_view(EntityId::from_slice(eid))
  }

  pub fn writer_history_payload(&self, w: &LocalWriter, sn: i64) -> Option<Vec<u8>> {
    self.ev.verif_writer_history_payload(w.guid.entity_id, sn)
  }

  pub fn participant_status_events(&self) -> Vec<DomainParticipantStatusEvent> {
    let mut v = vec![];
    while let Ok(e) = self.participant_status_rx.try_recv() {
      v.push(e);
    }
    v
  }

  pub fn spdp_liveness_signals(&self) -> Vec<[u8; 12]> {
    let mut v = vec![];
    while let Ok(p) = self.spdp_liveness_rx.try_recv() {
      v.push(p.bytes);
    }
    v
  }
}

impl LocalReader {
  pub fn guid_bytes(&self) -> GuidBytes {
    self.guid.to_bytes()
  }

  /// One change, exactly as `SimpleDataReader::try_take_one_with` selects it
  /// (`get_changes_in_range_reliable` / `_best_effort`, first element) and
  /// advances the read pointers.  Deserialisation is not involved here: the
  /// real `SimpleDataReader`/`DataReader` run in engine E2.
  pub fn take_one(&mut self) -> Option<ChangeView> {
    let tc = self.topic_cache.lock().unwrap();
    let next = if self.reliable {
      tc.get_changes_in_range_reliable(&self.last_read_sn)
        .next()
        .map(|(t, c)| (t, c.clone()))
    } else {
      tc.get_changes_in_range_best_effort(self.latest_instant, Timestamp::now())
        .next()
        .map(|(t, c)| (t, c.clone()))
    };
    drop(tc);
    next.map(|(ts, cc)| {
      self.latest_instant = std::cmp::max(self.latest_instant, ts);
      self.last_read_sn.insert(cc.writer_guid, cc.sequence_number);
      crate::structure::dds_cache::verif_hooks::change_view(ts, &cc)
    })
  }

  pub fn take_all(&mut self) -> Vec<ChangeView> {
    let mut v = vec![];
    while let Some(c) = self.take_one() {
      v.push(c);
    }
    v
  }

  pub fn cache_view(&self) -> TopicCacheView {
    self.topic_cache.lock().unwrap().verif_view()
  }

  pub fn drain_notifications(&self) -> usize {
    let mut n = 0;
    while self.notification_rx.try_recv().is_ok() {
      n += 1;
    }
    n
  }

  pub fn status_events(&self) -> Vec<DataReaderStatus> {
    let mut v = vec![];
    while let Ok(e) = self.status_rx.try_recv() {
      v.push(e);
    }
    v
  }
}

impl LocalWriter {
  pub fn guid_bytes(&self) -> GuidBytes {
    self.guid.to_bytes()
  }

  pub fn next_sn(&self) -> i64 {
    self.next_sn
  }

  /// What `DataWriter::write_with_options` / `dispose` put on the command
  /// channel.  Returns the sequence number, or None if the queue is full.
  pub fn write(
    &mut self,
    payload: WritePayload,
    source_ticks: Option<u64>,
    to_single_reader: Option<GuidBytes>,
  ) -> Option<i64> {
    let ddsdata = match payload {
      WritePayload::Data { rep_id, value } => DDSData::new(SerializedPayload::new_from_bytes(
        RepresentationIdentifier { bytes: rep_id },
        Bytes::from(value),
      )),
      WritePayload::DisposeByKey { rep_id, value } => DDSData::new_disposed_by_key(
        ChangeKind::NotAliveDisposed,
        SerializedPayload::new_from_bytes(
          RepresentationIdentifier { bytes: rep_id },
          Bytes::from(value),
        ),
      ),
      WritePayload::DisposeByKeyHash { hash } => DDSData::new_disposed_by_key_hash(
        ChangeKind::NotAliveDisposed,
        crate::dds::key::KeyHash::from_pl_cdr_bytes(hash.to_vec()).expect("key hash"),
      ),
    };
    let mut wo = WriteOptionsBuilder::new();
    if let Some(t) = source_ticks {
      wo = wo.source_timestamp(Timestamp::from_ticks(t));
    }
    if let Some(g) = to_single_reader {
      wo = wo.to_single_reader(GUID::from_bytes(g));
    }
    let sn = self.next_sn;
    match self.cmd_tx.try_send(WriterCommand::DDSData {
      ddsdata,
      write_options: wo.build(),
      sequence_number: SequenceNumber::new(sn),
    }) {
      Ok(()) => {
        self.next_sn += 1;
        Some(sn)
      }
      Err(_) => None,
    }
  }

  pub fn wait_for_acknowledgments(&mut self) -> Option<AckWait> {
    let (tx, rx) = sync_status_channel::<()>(1).unwrap();
    match self
      .cmd_tx
      .try_send(WriterCommand::WaitForAcknowledgments { all_acked: tx })
    {
      Ok(()) => Some(AckWait { rx }),
      Err(_) => None,
    }
  }

  pub fn status_events(&self) -> Vec<DataWriterStatus> {
    let mut v = vec![];
    while let Ok(e) = self.status_rx.try_recv() {
      v.push(e);
    }
    v
  }
}
