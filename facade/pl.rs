//! Discovery payloads for scripted remote participants (C11/C12): the bytes are
//! produced by RustDDS' own PL_CDR serialisers, so a scripted peer announces
//! itself exactly like a RustDDS participant would.  The wire format itself is
//! not what these checks decide (that is C15).
//!
//! Every function returns the serialized payload including the 4-byte
//! representation header, ready to be put into a DATA submessage.

use std::net::SocketAddr;

use crate::{
  discovery::{
    builtin_endpoint::BuiltinEndpointSet,
    sedp_messages::{DiscoveredReaderData, DiscoveredWriterData, Endpoint_GUID},
    spdp_participant_data::{Participant_GUID, SpdpDiscoveredParticipantData},
  },
  messages::{protocol_version::ProtocolVersion, vendor_id::VendorId},
  serialization::pl_cdr_adapters::PlCdrSerialize,
  structure::{
    duration::Duration,
    guid::{EntityId, GuidPrefix, GUID},
  },
  verif::node::locators,
  RepresentationIdentifier,
};

/// the lease a scripted participant advertises
#[derive(Clone, Copy, Debug, PartialEq)]
pub enum Lease {
  /// PID_PARTICIPANT_LEASE_DURATION absent
  Absent,
  Millis(i64),
  Infinite,
}

fn with_header(rep: RepresentationIdentifier, body: &[u8]) -> Vec<u8> {
  let mut v = Vec::with_capacity(4 + body.len());
  v.extend_from_slice(&rep.to_bytes());
  v.extend_from_slice(&[0, 0]);
  v.extend_from_slice(body);
  v
}

fn rep(big_endian: bool) -> RepresentationIdentifier {
  if big_endian {
    RepresentationIdentifier::PL_CDR_BE
  } else {
    RepresentationIdentifier::PL_CDR_LE
  }
}

/// SPDP announcement of a participant with the standard (non-secure) built-in endpoints
pub fn spdp_payload(
  prefix: [u8; 12],
  lease: Lease,
  metatraffic_unicast: &[SocketAddr],
  metatraffic_multicast: &[SocketAddr],
  default_unicast: &[SocketAddr],
  default_multicast: &[SocketAddr],
  big_endian: bool,
) -> Vec<u8> {
  let endpoints = BuiltinEndpointSet::PARTICIPANT_ANNOUNCER
    | BuiltinEndpointSet::PARTICIPANT_DETECTOR
    | BuiltinEndpointSet::PUBLICATIONS_ANNOUNCER
    | BuiltinEndpointSet::PUBLICATIONS_DETECTOR
    | BuiltinEndpointSet::SUBSCRIPTIONS_ANNOUNCER
    | BuiltinEndpointSet::SUBSCRIPTIONS_DETECTOR
    | BuiltinEndpointSet::PARTICIPANT_MESSAGE_DATA_WRITER
    | BuiltinEndpointSet::PARTICIPANT_MESSAGE_DATA_READER
    | BuiltinEndpointSet::TOPICS_ANNOUNCER
    | BuiltinEndpointSet::TOPICS_DETECTOR;
  let d = SpdpDiscoveredParticipantData {
    updated_time: crate::verif::hooks::Utc::now(),
    protocol_version: ProtocolVersion::PROTOCOLVERSION_2_3,
    vendor_id: VendorId::THIS_IMPLEMENTATION,
    expects_inline_qos: false,
    participant_guid: GUID::new(GuidPrefix::new(&prefix), EntityId::PARTICIPANT),
    metatraffic_unicast_locators: locators(metatraffic_unicast),
    metatraffic_multicast_locators: locators(metatraffic_multicast),
    default_unicast_locators: locators(default_unicast),
    default_multicast_locators: locators(default_multicast),
    available_builtin_endpoints: BuiltinEndpointSet::from_u32(endpoints),
    lease_duration: match lease {
      Lease::Absent => None,
      Lease::Millis(ms) => Some(Duration::from_millis(ms)),
      Lease::Infinite => Some(Duration::INFINITE),
    },
    manual_liveliness_count: 0,
    builtin_endpoint_qos: None,
    entity_name: None,
    #[cfg(feature = "security")]
    identity_token: None,
    #[cfg(feature = "security")]
    permissions_token: None,
    #[cfg(feature = "security")]
    property: None,
    #[cfg(feature = "security")]
    security_info: None,
  };
  let r = rep(big_endian);
  with_header(r, &d.to_pl_cdr_bytes(r).expect("spdp serialisation"))
}

/// serialized key of a participant (for the SPDP dispose)
pub fn spdp_key_payload(prefix: [u8; 12], big_endian: bool) -> Vec<u8> {
  let r = rep(big_endian);
  let k = Participant_GUID(GUID::new(GuidPrefix::new(&prefix), EntityId::PARTICIPANT));
  with_header(r, &k.to_pl_cdr_bytes(r).expect("key serialisation"))
}

pub fn publication_payload(d: &DiscoveredWriterData, big_endian: bool) -> Vec<u8> {
  let r = rep(big_endian);
  with_header(r, &d.to_pl_cdr_bytes(r).expect("publication serialisation"))
}

pub fn subscription_payload(d: &DiscoveredReaderData, big_endian: bool) -> Vec<u8> {
  let r = rep(big_endian);
  with_header(r, &d.to_pl_cdr_bytes(r).expect("subscription serialisation"))
}

/// serialized key of an endpoint (for SEDP disposes)
pub fn endpoint_key_payload(guid: [u8; 16], big_endian: bool) -> Vec<u8> {
  let r = rep(big_endian);
  let k = Endpoint_GUID(GUID::from_bytes(guid));
  with_header(r, &k.to_pl_cdr_bytes(r).expect("key serialisation"))
}
