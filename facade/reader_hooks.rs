//! child module of `rtps::reader` (may read private fields)
use super::Reader;
use crate::verif::types::{ReaderView, WriterProxyView};
use crate::structure::entity::RTPSEntity;

impl Reader {
  pub(crate) fn verif_view(&self) -> ReaderView {
    ReaderView {
      guid: self.guid().to_bytes(),
      topic: self.topic_name.clone(),
      reliable: self.reliability != crate::dds::qos::policy::Reliability::BestEffort,
      matched_writers: self
        .matched_writers
        .values()
        .map(|p| p.verif_view())
        .collect::<Vec<WriterProxyView>>(),
      writer_match_count_total: self.writer_match_count_total,
      offered_incompatible_qos_count: self.offered_incompatible_qos_count,
      assembling: self
        .fragment_assemblers
        .iter()
        .map(|(g, fa)| (g.to_bytes(), fa.verif_partial_sns()))
        .collect(),
    }
  }
}
