//! child module of `rtps::rtps_reader_proxy`
use super::RtpsReaderProxy;
use crate::verif::types::ReaderProxyView;

impl RtpsReaderProxy {
  pub(crate) fn verif_view(&self) -> ReaderProxyView {
    ReaderProxyView {
      reader: self.remote_reader_guid.to_bytes(),
      reliable: self.qos.is_reliable(),
      all_acked_before: i64::from(self.all_acked_before),
      unsent: self.unsent_changes.iter().map(|s| i64::from(*s)).collect(),
      pending_gap: self.pending_gap.iter().map(|s| i64::from(*s)).collect(),
      repair_mode: self.repair_mode,
      frags_requested: self
        .frags_requested
        .iter()
        .map(|(sn, bv)| {
          (
            i64::from(*sn),
            bv.iter()
              .enumerate()
              .filter(|(_, b)| *b)
              .map(|(i, _)| i as u32 + 1)
              .collect(),
          )
        })
        .collect(),
    }
  }
}
