//! Engine E3 facade (feature `security`): real `AuthenticationBuiltin` plugin
//! instances as communicating parties.  The facade only constructs plugin
//! instances from fixture files, forwards the calls of the Authentication
//! trait, and gives field-level access to the tokens that travel between the
//! parties (so that the harness can alter, replay and forge them).

use bytes::Bytes;

use crate::{
  dds::qos::QosPolicyBuilder,
  security::{
    authentication::{
      authentication_builtin::AuthenticationBuiltin, Authentication, AuthRequestMessageToken, HandshakeMessageToken,
      IdentityToken, ValidationOutcome,
    },
    authentication::types::Sha256,
    config::DomainParticipantSecurityConfigFiles,
    types::{BinaryProperty, DataHolder, Property},
  },
  serialization::to_vec,
  structure::guid::{EntityId, GuidPrefix, GUID},
};

/// a token on the wire between two parties: class id, string properties, binary properties
#[derive(Clone, Debug, PartialEq, Eq)]
pub struct Token {
  pub class_id: String,
  pub props: Vec<(String, String)>,
  pub bin: Vec<(String, Vec<u8>)>,
}

impl From<DataHolder> for Token {
  fn from(d: DataHolder) -> Self {
    Token {
      class_id: d.class_id.clone(),
      props: d.properties.iter().map(|p| (p.name.clone(), p.value.clone())).collect(),
      bin: d.binary_properties.iter().map(|p| (p.name.clone(), p.value.to_vec())).collect(),
    }
  }
}

impl Token {
  fn holder(&self) -> DataHolder {
    DataHolder {
      class_id: self.class_id.clone(),
      properties: self
        .props
        .iter()
        .map(|(n, v)| Property {
          name: n.clone(),
          value: v.clone(),
          propagate: true,
        })
        .collect(),
      binary_properties: self
        .bin
        .iter()
        .map(|(n, v)| BinaryProperty::with_propagate(n, Bytes::copy_from_slice(v)))
        .collect(),
    }
  }
}

#[derive(Clone, Copy, Debug, PartialEq, Eq)]
pub enum Outcome {
  Ok,
  PendingHandshakeRequest,
  PendingHandshakeMessage,
  OkFinalMessage,
}

impl From<ValidationOutcome> for Outcome {
  fn from(v: ValidationOutcome) -> Self {
    match v {
      ValidationOutcome::Ok => Outcome::Ok,
      ValidationOutcome::PendingHandshakeRequest => Outcome::PendingHandshakeRequest,
      ValidationOutcome::PendingHandshakeMessage => Outcome::PendingHandshakeMessage,
      ValidationOutcome::OkFinalMessage => Outcome::OkFinalMessage,
    }
  }
}

pub struct AuthParty {
  auth: AuthenticationBuiltin,
  local: u32,
  guid: GUID,
}

impl AuthParty {
  /// a participant whose identity comes from the fixture directory `dir`
  pub fn new(dir: &str, candidate_prefix: [u8; 12]) -> Result<Self, String> {
    let props = DomainParticipantSecurityConfigFiles::with_ros_default_names(dir, "password123".to_string())
      .into_property_policy();
    let qos = QosPolicyBuilder::new().property(props).build();
    let mut auth = AuthenticationBuiltin::new();
    let candidate = GUID::new(GuidPrefix::new(&candidate_prefix), EntityId::PARTICIPANT);
    let (_outcome, local, guid) = auth
      .validate_local_identity(0, &qos, candidate)
      .map_err(|e| format!("{e:?}"))?;
    Ok(AuthParty { auth, local, guid })
  }

  /// the GUID the plugin bound to the certificate (the candidate, adjusted)
  pub fn guid_bytes(&self) -> [u8; 16] {
    self.guid.to_bytes()
  }

  pub fn identity_token(&self) -> Result<Token, String> {
    self
      .auth
      .get_identity_token(self.local)
      .map(|t| Token::from(t.data_holder))
      .map_err(|e| format!("{e:?}"))
  }

  /// validate_remote_identity: returns (outcome, remote identity handle, auth request to send)
  pub fn see_remote(
    &mut self,
    remote_identity: &Token,
    remote_prefix: [u8; 12],
    auth_request: Option<&Token>,
  ) -> Result<(Outcome, u32, Option<Token>), String> {
    self
      .auth
      .validate_remote_identity(
        auth_request.map(|t| AuthRequestMessageToken::from(t.holder())),
        self.local,
        IdentityToken::from(remote_identity.holder()),
        GuidPrefix::new(&remote_prefix),
      )
      .map(|(o, h, t)| (o.into(), h, t.map(|t| Token::from(t.data_holder))))
      .map_err(|e| format!("{e:?}"))
  }

  pub fn begin_request(&mut self, remote: u32, pdata: Vec<u8>) -> Result<(Outcome, u32, Token), String> {
    self
      .auth
      .begin_handshake_request(self.local, remote, pdata)
      .map(|(o, h, t)| (o.into(), h, Token::from(t.data_holder)))
      .map_err(|e| format!("{e:?}"))
  }

  pub fn begin_reply(&mut self, msg: &Token, remote: u32, pdata: Vec<u8>) -> Result<(Outcome, u32, Token), String> {
    self
      .auth
      .begin_handshake_reply(HandshakeMessageToken::from(msg.holder()), remote, self.local, pdata)
      .map(|(o, h, t)| (o.into(), h, Token::from(t.data_holder)))
      .map_err(|e| format!("{e:?}"))
  }

  pub fn process(&mut self, msg: &Token, handshake: u32) -> Result<(Outcome, Option<Token>), String> {
    self
      .auth
      .process_handshake(HandshakeMessageToken::from(msg.holder()), handshake)
      .map(|(o, t)| (o.into(), t.map(|t| Token::from(t.data_holder))))
      .map_err(|e| format!("{e:?}"))
  }

  /// shared secret with the remote (and the two challenges), as bytes
  pub fn shared_secret(&self, remote: u32) -> Result<Vec<u8>, String> {
    self
      .auth
      .get_shared_secret(remote)
      .map(|s| {
        let mut v = s.shared_secret.as_ref().to_vec();
        v.extend_from_slice(s.challenge1.as_ref());
        v.extend_from_slice(s.challenge2.as_ref());
        v
      })
      .map_err(|e| format!("{e:?}"))
  }
}

/// What an active forger does who holds a private key and a certificate of its
/// own (from whatever CA): the final message that answers `reply`, for the
/// handshake the forger opened with `request`, signed with the key in
/// `key_pem_path`.  The layout of the signed data is the one of DDS Security
/// 1.1 table 51 (the same arrangement as in `process_handshake`); hashing,
/// serialisation and signing are the crate's own primitives.
pub fn forge_final(key_pem_path: &str, request: &Token, reply: &Token) -> Result<Token, String> {
  let get = |t: &Token, n: &str| -> Result<Bytes, String> {
    t.bin
      .iter()
      .find(|(k, _)| k == n)
      .map(|(_, v)| Bytes::copy_from_slice(v))
      .ok_or_else(|| format!("no {n}"))
  };
  let c_hash = |t: &Token| -> Result<Sha256, String> {
    let props: Vec<BinaryProperty> = ["c.id", "c.perm", "c.pdata", "c.dsign_algo", "c.kagree_algo"]
      .iter()
      .map(|n| get(t, n).map(|v| BinaryProperty::with_propagate(n, v)))
      .collect::<Result<_, _>>()?;
    Ok(Sha256::hash(
      &to_vec::<Vec<BinaryProperty>, byteorder::BigEndian>(&props).map_err(|e| format!("{e:?}"))?,
    ))
  };
  let (hash_c1, hash_c2) = (c_hash(request)?, c_hash(reply)?);
  let b = |h: &Sha256| Bytes::copy_from_slice(h.as_ref());
  let signed: Vec<BinaryProperty> = vec![
    BinaryProperty::with_propagate("hash_c1", b(&hash_c1)),
    BinaryProperty::with_propagate("challenge1", get(request, "challenge1")?),
    BinaryProperty::with_propagate("dh1", get(request, "dh1")?),
    BinaryProperty::with_propagate("challenge2", get(reply, "challenge2")?),
    BinaryProperty::with_propagate("dh2", get(reply, "dh2")?),
    BinaryProperty::with_propagate("hash_c2", b(&hash_c2)),
  ];
  // the same two library calls as `security::private_key::PrivateKey::{from_pem, sign}`
  use x509_certificate::{signing::InMemorySigningKeyPair, Signer};
  let key = InMemorySigningKeyPair::from_pkcs8_pem(std::fs::read(key_pem_path).map_err(|e| format!("{e:?}"))?)
    .map_err(|e| format!("{e:?}"))?;
  let signature = key
    .try_sign(&to_vec::<Vec<BinaryProperty>, byteorder::BigEndian>(&signed).map_err(|e| format!("{e:?}"))?)
    .map_err(|e| format!("{e:?}"))?;
  let signature: &[u8] = signature.as_ref();
  Ok(Token {
    class_id: "DDS:Auth:PKI-DH:1.0+Final".to_string(),
    props: vec![],
    bin: vec![
      ("hash_c1".to_string(), hash_c1.as_ref().to_vec()),
      ("dh1".to_string(), get(request, "dh1")?.to_vec()),
      ("hash_c2".to_string(), hash_c2.as_ref().to_vec()),
      ("dh2".to_string(), get(reply, "dh2")?.to_vec()),
      ("challenge1".to_string(), get(request, "challenge1")?.to_vec()),
      ("challenge2".to_string(), get(reply, "challenge2")?.to_vec()),
      ("signature".to_string(), signature.to_vec()),
    ],
  })
}
