//! Engine E3 facade (feature `security`): real `AuthenticationBuiltin` plugin
//! instances as communicating parties.  The facade only constructs plugin
//! instances from fixture files, forwards the calls of the Authentication
//! trait, and gives field-level access to the tokens that travel between the
//! parties (so that the harness can alter, replay and forge them).

use bytes::Bytes;

use crate::{
  dds::qos::QosPolicyBuilder,
  security::{
    authentication::{
      authentication_builtin::AuthenticationBuiltin, Authentication, AuthRequestMessageToken, HandshakeMessageToken,
      IdentityToken, ValidationOutcome,
    },
    config::DomainParticipantSecurityConfigFiles,
    types::{BinaryProperty, DataHolder, Property},
  },
  structure::guid::{EntityId, GuidPrefix, GUID},
};

/// a token on the wire between two parties: class id, string properties, binary properties
#[derive(Clone, Debug, PartialEq, Eq)]
pub struct Token {
  pub class_id: String,
  pub props: Vec<(String, String)>,
  pub bin: Vec<(String, Vec<u8>)>,
}

impl From<DataHolder> for Token {
  fn from(d: DataHolder) -> Self {
    Token {
      class_id: d.class_id.clone(),
      props: d.properties.iter().map(|p| (p.name.clone(), p.value.clone())).collect(),
      bin: d.binary_properties.iter().map(|p| (p.name.clone(), p.value.to_vec())).collect(),
    }
  }
}

impl Token {
  fn holder(&self) -> DataHolder {
    DataHolder {
      class_id: self.class_id.clone(),
      properties: self
        .props
        .iter()
        .map(|(n, v)| Property {
          name: n.clone(),
          value: v.clone(),
          propagate: true,
        })
        .collect(),
      binary_properties: self
        .bin
        .iter()
        .map(|(n, v)| BinaryProperty::with_propagate(n, Bytes::copy_from_slice(v)))
        .collect(),
    }
  }
}

#[derive(Clone, Copy, Debug, PartialEq, Eq)]
pub enum Outcome {
  Ok,
  PendingHandshakeRequest,
  PendingHandshakeMessage,
  OkFinalMessage,
}

impl From<ValidationOutcome> for Outcome {
  fn from(v: ValidationOutcome) -> Self {
    match v {
      ValidationOutcome::Ok => Outcome::Ok,
      ValidationOutcome::PendingHandshakeRequest => Outcome::PendingHandshakeRequest,
      ValidationOutcome::PendingHandshakeMessage => Outcome::PendingHandshakeMessage,
      ValidationOutcome::OkFinalMessage => Outcome::OkFinalMessage,
    }
  }
}

pub struct AuthParty {
  auth: AuthenticationBuiltin,
  local: u32,
  guid: GUID,
}

impl AuthParty {
  /// a participant whose identity comes from the fixture directory `dir`
  pub fn new(dir: &str, candidate_prefix: [u8; 12]) -> Result<Self, String> {
    let props = DomainParticipantSecurityConfigFiles::with_ros_default_names(dir, "password123".to_string())
      .into_property_policy();
    let qos = QosPolicyBuilder::new().property(props).build();
    let mut auth = AuthenticationBuiltin::new();
    let candidate = GUID::new(GuidPrefix::new(&candidate_prefix), EntityId::PARTICIPANT);
    let (_outcome, local, guid) = auth
      .validate_local_identity(0, &qos, candidate)
      .map_err(|e| format!("{e:?}"))?;
    Ok(AuthParty { auth, local, guid })
  }

  /// the GUID the plugin bound to the certificate (the candidate, adjusted)
  pub fn guid_bytes(&self) -> [u8; 16] {
    self.guid.to_bytes()
  }

  pub fn identity_token(&self) -> Result<Token, String> {
    self
      .auth
      .get_identity_token(self.local)
      .map(|t| Token::from(t.data_holder))
      .map_err(|e| format!("{e:?}"))
  }

  /// validate_remote_identity: returns (outcome, remote identity handle, auth request to send)
  pub fn see_remote(
    &mut self,
    remote_identity: &Token,
    remote_prefix: [u8; 12],
    auth_request: Option<&Token>,
  ) -> Result<(Outcome, u32, Option<Token>), String> {
    self
      .auth
      .validate_remote_identity(
        auth_request.map(|t| AuthRequestMessageToken::from(t.holder())),
        self.local,
        IdentityToken::from(remote_identity.holder()),
        GuidPrefix::new(&remote_prefix),
      )
      .map(|(o, h, t)| (o.into(), h, t.map(|t| Token::from(t.data_holder))))
      .map_err(|e| format!("{e:?}"))
  }

  pub fn begin_request(&mut self, remote: u32, pdata: Vec<u8>) -> Result<(Outcome, u32, Token), String> {
    self
      .auth
      .begin_handshake_request(self.local, remote, pdata)
      .map(|(o, h, t)| (o.into(), h, Token::from(t.data_holder)))
      .map_err(|e| format!("{e:?}"))
  }

  pub fn begin_reply(&mut self, msg: &Token, remote: u32, pdata: Vec<u8>) -> Result<(Outcome, u32, Token), String> {
    self
      .auth
      .begin_handshake_reply(HandshakeMessageToken::from(msg.holder()), remote, self.local, pdata)
      .map(|(o, h, t)| (o.into(), h, Token::from(t.data_holder)))
      .map_err(|e| format!("{e:?}"))
  }

  pub fn process(&mut self, msg: &Token, handshake: u32) -> Result<(Outcome, Option<Token>), String> {
    self
      .auth
      .process_handshake(HandshakeMessageToken::from(msg.holder()), handshake)
      .map(|(o, t)| (o.into(), t.map(|t| Token::from(t.data_holder))))
      .map_err(|e| format!("{e:?}"))
  }

  /// shared secret with the remote (and the two challenges), as bytes
  pub fn shared_secret(&self, remote: u32) -> Result<Vec<u8>, String> {
    self
      .auth
      .get_shared_secret(remote)
      .map(|s| {
        let mut v = s.shared_secret.as_ref().to_vec();
        v.extend_from_slice(s.challenge1.as_ref());
        v.extend_from_slice(s.challenge2.as_ref());
        v
      })
      .map_err(|e| format!("{e:?}"))
  }
}
