//! Engine E3, second part (feature `security`): whole `SecurityPlugins` sets
//! (authentication + access control + cryptography, all builtin) as parties.
//!
//! A `SecParty` is what a secure `DomainParticipant` holds: it is created the
//! way `DomainParticipantBuilder::build` and `SecureDiscovery::new` create and
//! initialise the plugins, authenticates and exchanges key material with
//! another party by direct calls (STUB-PLUMBING: the sequence of plugin calls
//! mirrors `secure_discovery.rs`; no discovery traffic is involved), and can
//! then (a) be handed to an E1 `SimNode`, whose real `MessageReceiver`,
//! `Reader`s and `Writer`s use it exactly as in a secure participant, or (b)
//! protect messages on behalf of a scripted peer (payload, submessage and
//! message level; the same three calls `rtps::message`, `Writer::security_encode`
//! and `Reader` make).

use bytes::Bytes;
use enumflags2::BitFlags;
use speedy::{Endianness, Writable};

use crate::{
  dds::qos::QosPolicyBuilder,
  messages::submessages::submessages::*,
  rtps::{Message, Submessage, SubmessageBody},
  security::{
    access_control::access_control_builtin::AccessControlBuiltin,
    authentication::{authentication_builtin::AuthenticationBuiltin, ValidationOutcome},
    config::DomainParticipantSecurityConfigFiles,
    cryptographic::cryptographic_builtin::CryptographicBuiltin,
    security_plugins::{SecurityPlugins, SecurityPluginsHandle},
    EndpointSecurityInfo,
  },
  structure::guid::{EntityId, GuidPrefix, GUID},
};

pub struct SecParty {
  pub(crate) handle: SecurityPluginsHandle,
  pub(crate) guid: GUID,
  domain_id: u16,
  pdata: Vec<u8>,
}

/// what the governance document demands of one endpoint
#[derive(Clone, Copy, Debug, PartialEq, Eq)]
pub struct EndpointProtection {
  pub submessage: bool,
  pub payload: bool,
}

/// how one submessage of a plain message is to be protected by `SecParty::protect`
#[derive(Clone, Debug, Default)]
pub struct Protect {
  /// encode the serialized payload of a DATA / DATAFRAG as this local writer does
  pub payload_as: Option<[u8; 16]>,
  /// wrap the submessage as this local endpoint does for these remote endpoints
  pub submessage_as: Option<([u8; 16], Vec<[u8; 16]>)>,
}

fn es<E: std::fmt::Debug>(e: E) -> String {
  format!("{e:?}")
}

impl SecParty {
  /// identity, governance and permissions from the fixture directory `dir`
  pub fn new(dir: &str, candidate_prefix: [u8; 12], domain_id: u16) -> Result<Self, String> {
    let props =
      DomainParticipantSecurityConfigFiles::with_ros_default_names(dir, "password123".to_string())
        .into_property_policy();
    let qos = QosPolicyBuilder::new().property(props).build();
    let mut plugins = SecurityPlugins::new(
      Box::new(AuthenticationBuiltin::new()),
      Box::new(AccessControlBuiltin::new()),
      Box::new(CryptographicBuiltin::new()),
    );
    let candidate = GUID::new(GuidPrefix::new(&candidate_prefix), EntityId::PARTICIPANT);
    // DomainParticipantBuilder::build
    let guid = plugins
      .validate_local_identity(domain_id, &qos, candidate)
      .map_err(es)?;
    plugins
      .validate_local_permissions(domain_id, guid.prefix, &qos)
      .map_err(es)?;
    if !plugins
      .check_create_participant(domain_id, guid.prefix, &qos)
      .map_err(es)?
    {
      return Err("check_create_participant: denied".into());
    }
    let attrs = plugins.get_participant_sec_attributes(guid.prefix).map_err(es)?;
    plugins
      .register_local_participant(guid.prefix, qos.property.clone(), attrs)
      .map_err(es)?;
    // SecureDiscovery::new
    let permissions_token = plugins.get_permissions_token(guid.prefix).map_err(es)?;
    let credential_token = plugins
      .get_permissions_credential_token(guid.prefix)
      .map_err(es)?;
    plugins
      .set_permissions_credential_and_token(guid.prefix, credential_token, permissions_token)
      .map_err(es)?;
    Ok(SecParty {
      handle: SecurityPluginsHandle::new(plugins),
      guid,
      domain_id,
      pdata: Vec::new(),
    })
  }

  pub fn prefix_bytes(&self) -> [u8; 12] {
    let mut p = [0u8; 12];
    p.copy_from_slice(&self.guid.to_bytes()[0..12]);
    p
  }

  pub fn guid_of(&self, entity_id: [u8; 4]) -> [u8; 16] {
    GUID::new(self.guid.prefix, EntityId::from_slice(entity_id)).to_bytes()
  }

  /// the serialized participant data this party presents in its handshake messages
  pub fn set_participant_data(&mut self, pdata: Vec<u8>) {
    self.pdata = pdata;
  }

  pub fn rtps_protected(&self) -> Result<bool, String> {
    self
      .handle
      .get_plugins()
      .get_participant_sec_attributes(self.guid.prefix)
      .map(|a| a.is_rtps_protected)
      .map_err(es)
  }

  /// authentication handshake, permission validation, participant registration
  /// and exchange of participant key material, in both directions
  pub fn authenticate(a: &mut SecParty, b: &mut SecParty) -> Result<(), String> {
    let (ap, bp) = (a.guid.prefix, b.guid.prefix);
    let ida = a.handle.get_plugins().get_identity_token(ap).map_err(es)?;
    let idb = b.handle.get_plugins().get_identity_token(bp).map_err(es)?;
    let (oa, req_a) = a
      .handle
      .get_plugins()
      .validate_remote_identity(ap, idb, bp, None)
      .map_err(es)?;
    let (ob, _req_b) = b
      .handle
      .get_plugins()
      .validate_remote_identity(bp, ida, ap, req_a)
      .map_err(es)?;
    let (init, repl) = match (oa, ob) {
      (ValidationOutcome::PendingHandshakeRequest, ValidationOutcome::PendingHandshakeMessage) => {
        (&mut *a, &mut *b)
      }
      (ValidationOutcome::PendingHandshakeMessage, ValidationOutcome::PendingHandshakeRequest) => {
        (&mut *b, &mut *a)
      }
      other => return Err(format!("validate_remote_identity outcomes {other:?}")),
    };
    let (ip, rp) = (init.guid.prefix, repl.guid.prefix);
    let (_, m1) = init
      .handle
      .get_plugins()
      .begin_handshake_request(ip, rp, init.pdata.clone())
      .map_err(es)?;
    let (_, m2) = repl
      .handle
      .get_plugins()
      .begin_handshake_reply(rp, ip, m1, repl.pdata.clone())
      .map_err(es)?;
    let (o3, m3) = init.handle.get_plugins().process_handshake(rp, m2).map_err(es)?;
    let m3 = match (o3, m3) {
      (ValidationOutcome::OkFinalMessage, Some(m3)) => m3,
      other => return Err(format!("process_handshake(reply) gave {other:?}")),
    };
    match repl.handle.get_plugins().process_handshake(ip, m3).map_err(es)? {
      (ValidationOutcome::Ok, None) => {}
      other => return Err(format!("process_handshake(final) gave {other:?}")),
    }
    // SecureDiscovery::on_remote_participant_authenticated, both sides
    for (me, other) in [(&*a, &*b), (&*b, &*a)] {
      let (mp, op) = (me.guid.prefix, other.guid.prefix);
      let remote_permissions_token = other.handle.get_plugins().get_permissions_token(op).map_err(es)?;
      let mut p = me.handle.get_plugins();
      let cred = p.get_authenticated_peer_credential_token(op).map_err(es)?;
      p.validate_remote_permissions(mp, op, &remote_permissions_token, &cred)
        .map_err(es)?;
      if !p.check_remote_participant(me.domain_id, op).map_err(es)? {
        return Err("check_remote_participant: denied".into());
      }
      let secret = p.get_shared_secret(op).map_err(es)?;
      p.register_matched_remote_participant(op, secret).map_err(es)?;
    }
    // SecureDiscovery::start_key_exchange_with_remote_participant, both sides
    for (me, other) in [(&*a, &*b), (&*b, &*a)] {
      let tokens = me
        .handle
        .get_plugins()
        .create_local_participant_crypto_tokens(other.guid.prefix)
        .map_err(es)?;
      other
        .handle
        .get_plugins()
        .set_remote_participant_crypto_tokens(me.guid.prefix, tokens)
        .map_err(es)?;
    }
    Ok(())
  }

  /// InnerSubscriber::create_datareader: attributes from access control, registration with crypto
  pub fn register_reader(&self, reader: [u8; 16], topic: &str) -> Result<EndpointProtection, String> {
    let guid = GUID::from_bytes(reader);
    let attrs = self
      .handle
      .get_plugins()
      .get_reader_sec_attributes(guid, topic.to_string())
      .map_err(es)?;
    let prot = EndpointProtection {
      submessage: attrs.is_submessage_protected,
      payload: attrs.is_payload_protected,
    };
    self
      .handle
      .get_plugins()
      .register_local_reader(guid, None, attrs)
      .map_err(es)?;
    Ok(prot)
  }

  /// InnerPublisher::create_datawriter
  pub fn register_writer(&self, writer: [u8; 16], topic: &str) -> Result<EndpointProtection, String> {
    let guid = GUID::from_bytes(writer);
    let attrs = self
      .handle
      .get_plugins()
      .get_writer_sec_attributes(guid, topic.to_string())
      .map_err(es)?;
    let prot = EndpointProtection {
      submessage: attrs.is_submessage_protected,
      payload: attrs.is_payload_protected,
    };
    self
      .handle
      .get_plugins()
      .register_local_writer(guid, None, attrs)
      .map_err(es)?;
    Ok(prot)
  }

  pub(crate) fn writer_security_info(&self, writer: GUID, topic: &str) -> Option<EndpointSecurityInfo> {
    self
      .handle
      .get_plugins()
      .get_writer_sec_attributes(writer, topic.to_string())
      .map(EndpointSecurityInfo::from)
      .ok()
  }

  pub(crate) fn reader_security_info(&self, reader: GUID, topic: &str) -> Option<EndpointSecurityInfo> {
    self
      .handle
      .get_plugins()
      .get_reader_sec_attributes(reader, topic.to_string())
      .map(EndpointSecurityInfo::from)
      .ok()
  }

  /// SecureDiscovery::start_key_exchange_with_remote_endpoint on both sides
  /// for the pair (writer of `wp`, reader of `rp`)
  pub fn link(
    wp: &SecParty,
    writer: [u8; 16],
    rp: &SecParty,
    reader: [u8; 16],
    exchange_keys: bool,
  ) -> Result<(), String> {
    let (w, r) = (GUID::from_bytes(writer), GUID::from_bytes(reader));
    wp.handle
      .get_plugins()
      .register_matched_remote_reader_if_not_already(r, w, false)
      .map_err(es)?;
    rp.handle
      .get_plugins()
      .register_matched_remote_writer_if_not_already(w, r)
      .map_err(es)?;
    if exchange_keys {
      let tokens = wp
        .handle
        .get_plugins()
        .create_local_writer_crypto_tokens(w, r)
        .map_err(es)?;
      rp.handle
        .get_plugins()
        .set_remote_writer_crypto_tokens(w, r, tokens)
        .map_err(es)?;
      let tokens = rp
        .handle
        .get_plugins()
        .create_local_reader_crypto_tokens(r, w)
        .map_err(es)?;
      wp.handle
        .get_plugins()
        .set_remote_reader_crypto_tokens(r, w, tokens)
        .map_err(es)?;
    }
    Ok(())
  }

  /// Protects a plain RTPS message the way this participant's own Writers and
  /// Readers would: `plan[i]` says what to do with submessage `i`; `rtps_for`
  /// = Some(destination participants) additionally runs the message through
  /// `encode_message`.  Returns the bytes of the resulting message.
  pub fn protect(
    &self,
    message: &[u8],
    plan: &[Protect],
    rtps_for: Option<&[[u8; 12]]>,
  ) -> Result<Vec<u8>, String> {
    let Message { header, submessages } =
      Message::read_from_buffer(&Bytes::copy_from_slice(message)).map_err(es)?;
    let mut out: Vec<Submessage> = Vec::new();
    for (i, sub) in submessages.into_iter().enumerate() {
      let p = plan.get(i).cloned().unwrap_or_default();
      let endianness = if sub.header.flags & 1 == 1 {
        Endianness::LittleEndian
      } else {
        Endianness::BigEndian
      };
      // payload level: rtps::message::MessageBuilder::data_msg / data_frag_msg
      let sub = match (p.payload_as, sub.body.clone()) {
        (Some(w), SubmessageBody::Writer(WriterSubmessage::Data(mut data, flags))) => {
          if let Some(payload) = data.serialized_payload.take() {
            let (encoded, extra) = self
              .handle
              .get_plugins()
              .encode_serialized_payload(payload.to_vec(), &GUID::from_bytes(w))
              .map_err(es)?;
            if !extra.parameters.is_empty() {
              return Err("encode_serialized_payload returned inline qos".into());
            }
            data.serialized_payload = Some(Bytes::from(encoded));
          }
          let _ = endianness;
          Submessage {
            header: SubmessageHeader {
              kind: SubmessageKind::DATA,
              flags: flags.bits(),
              content_length: data.len_serialized() as u16,
            },
            body: SubmessageBody::Writer(WriterSubmessage::Data(data, flags)),
            original_bytes: None,
          }
        }
        (Some(w), SubmessageBody::Writer(WriterSubmessage::DataFrag(mut frag, flags))) => {
          let (encoded, extra) = self
            .handle
            .get_plugins()
            .encode_serialized_payload(frag.serialized_payload.to_vec(), &GUID::from_bytes(w))
            .map_err(es)?;
          if !extra.parameters.is_empty() {
            return Err("encode_serialized_payload returned inline qos".into());
          }
          frag.serialized_payload = Bytes::from(encoded);
          Submessage {
            header: SubmessageHeader {
              kind: SubmessageKind::DATA_FRAG,
              flags: flags.bits(),
              content_length: frag.len_serialized() as u16,
            },
            body: SubmessageBody::Writer(WriterSubmessage::DataFrag(frag, flags)),
            original_bytes: None,
          }
        }
        _ => sub,
      };
      // submessage level: Writer::security_encode / Reader's acknack path
      match p.submessage_as {
        None => out.push(sub),
        Some((src, dests)) => {
          let src = GUID::from_bytes(src);
          let dests: Vec<GUID> = dests.into_iter().map(GUID::from_bytes).collect();
          let plugins = self.handle.get_plugins();
          let encoded = match sub.body {
            SubmessageBody::Writer(_) => plugins.encode_datawriter_submessage(sub, &src, &dests),
            SubmessageBody::Reader(_) => plugins.encode_datareader_submessage(sub, &src, &dests),
            _ => return Err("only writer and reader submessages can be wrapped".into()),
          }
          .map_err(es)?;
          out.extend(Vec::<Submessage>::from(encoded));
        }
      }
    }
    let mut msg = Message {
      header,
      submessages: out,
    };
    if let Some(dests) = rtps_for {
      let dests: Vec<GuidPrefix> = dests.iter().map(|p| GuidPrefix::new(p)).collect();
      msg = self
        .handle
        .get_plugins()
        .encode_message(msg, &self.guid.prefix, &dests)
        .map_err(es)?;
    }
    msg.write_to_vec_with_ctx(Endianness::LittleEndian).map_err(es)
  }
}

#[allow(dead_code)]
fn _unused(_: BitFlags<DATA_Flags>) {}
