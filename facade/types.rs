//! Plain-data views of internal state, for oracles outside the crate.

pub type GuidBytes = [u8; 16];

#[derive(Clone, Debug, PartialEq, Eq)]
pub struct WriterProxyView {
  pub writer: GuidBytes,
  pub ack_base: i64,
  /// (sn, true = received / false = marked not available)
  pub changes: Vec<(i64, bool)>,
  pub received_heartbeat_count: i32,
  pub sent_ack_nack_count: i32,
}

#[derive(Clone, Debug, PartialEq, Eq)]
pub struct ReaderView {
  pub guid: GuidBytes,
  pub topic: String,
  pub reliable: bool,
  pub matched_writers: Vec<WriterProxyView>,
  pub writer_match_count_total: i32,
  pub offered_incompatible_qos_count: i32,
  /// (writer, sequence numbers with an assembly buffer)
  pub assembling: Vec<(GuidBytes, Vec<i64>)>,
}

#[derive(Clone, Debug, PartialEq, Eq)]
pub struct ReaderProxyView {
  pub reader: GuidBytes,
  pub reliable: bool,
  pub all_acked_before: i64,
  pub unsent: Vec<i64>,
  pub pending_gap: Vec<i64>,
  pub repair_mode: bool,
  pub frags_requested: Vec<(i64, Vec<u32>)>,
}

#[derive(Clone, Debug, PartialEq, Eq)]
pub struct WriterView {
  pub guid: GuidBytes,
  pub topic: String,
  pub reliable: bool,
  pub first_sn: i64,
  pub last_sn: i64,
  pub history: Vec<i64>,
  pub readers: Vec<ReaderProxyView>,
  pub matched_readers_count_total: i32,
  pub requested_incompatible_qos_count: i32,
  pub ack_waiter: Option<(i64, Vec<GuidBytes>)>,
  pub heartbeat_counter: i32,
}

#[derive(Clone, Debug, PartialEq, Eq)]
pub enum ChangeData {
  Data { rep_id: [u8; 2], rep_opts: [u8; 2], value: Vec<u8> },
  DisposeByKey { rep_id: [u8; 2], value: Vec<u8> },
  DisposeByKeyHash { hash: [u8; 16] },
}

#[derive(Clone, Debug, PartialEq, Eq)]
pub struct ChangeView {
  pub receive_ticks: u64,
  pub writer: GuidBytes,
  pub sn: i64,
  pub source_ticks: Option<u64>,
  pub data: ChangeData,
}

#[derive(Clone, Debug, PartialEq, Eq)]
pub struct TopicCacheView {
  pub changes: Vec<ChangeView>,
  pub reliable_before: Vec<(GuidBytes, i64)>,
}
