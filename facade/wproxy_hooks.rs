//! child module of `rtps::rtps_writer_proxy`
use super::RtpsWriterProxy;
use crate::verif::types::WriterProxyView;

impl RtpsWriterProxy {
  pub(crate) fn verif_view(&self) -> WriterProxyView {
    WriterProxyView {
      writer: self.remote_writer_guid.to_bytes(),
      ack_base: i64::from(self.ack_base),
      changes: self
        .changes
        .iter()
        .map(|(sn, t)| (i64::from(*sn), t.is_some()))
        .collect(),
      received_heartbeat_count: self.received_heartbeat_count,
      sent_ack_nack_count: self.sent_ack_nack_count,
    }
  }
}
