//! child module of `rtps::writer`
use super::Writer;
use crate::{structure::entity::RTPSEntity, verif::types::WriterView};

impl Writer {
  pub(crate) fn verif_view(&self) -> WriterView {
    WriterView {
      guid: self.guid().to_bytes(),
      topic: self.my_topic_name.clone(),
      reliable: self.is_reliable(),
      first_sn: i64::from(self.history_buffer.first_seq),
      last_sn: i64::from(self.history_buffer.last_seq),
      history: self
        .history_buffer
        .sequence_number_to_instant
        .keys()
        .map(|s| i64::from(*s))
        .collect(),
      readers: self.readers.values().map(|r| r.verif_view()).collect(),
      matched_readers_count_total: self.matched_readers_count_total,
      requested_incompatible_qos_count: self.requested_incompatible_qos_count,
      ack_waiter: self.ack_waiter.as_ref().map(|aw| {
        (
          i64::from(aw.wait_until),
          aw.readers_pending.iter().map(|g| g.to_bytes()).collect(),
        )
      }),
      heartbeat_counter: self
        .heartbeat_message_counter
        .load(std::sync::atomic::Ordering::SeqCst),
    }
  }

  /// payload bytes (representation header + value) the history holds for `sn`
  pub(crate) fn verif_history_payload(&self, sn: i64) -> Option<Vec<u8>> {
    use crate::structure::sequence_number::SequenceNumber;
    self
      .history_buffer
      .get_by_sn(SequenceNumber::new(sn))
      .map(|cc| {
        let n = cc.data_value.payload_size();
        cc.data_value.bytes_slice(0, n).to_vec()
      })
  }
}
