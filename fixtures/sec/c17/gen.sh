#!/bin/sh
# Generates the governance / permissions fixtures of C17 (engine E3).  Run once; the
# results are committed.  Signing key: the Permissions CA shipped with RustDDS' examples.
set -e
EX=/repo/examples/security_configuration_files
HERE=$(cd "$(dirname "$0")" && pwd)
cd "$HERE"
topic_rule() { # name metadata data access
cat <<X
                <topic_rule>
                    <topic_expression>$1</topic_expression>
                    <enable_discovery_protection>false</enable_discovery_protection>
                    <enable_liveliness_protection>false</enable_liveliness_protection>
                    <enable_read_access_control>$4</enable_read_access_control>
                    <enable_write_access_control>$4</enable_write_access_control>
                    <metadata_protection_kind>$2</metadata_protection_kind>
                    <data_protection_kind>$3</data_protection_kind>
                </topic_rule>
X
}
governance() { # rtps kind
cat <<X
<?xml version="1.0" encoding="UTF-8"?>
<dds xmlns:xsi="http://www.w3.org/2001/XMLSchema-instance"
xsi:noNamespaceSchemaLocation="http://www.omg.org/spec/DDS-SECURITY/20170901/omg_shared_ca_governance.xsd">
    <domain_access_rules>
        <domain_rule>
            <domains>
                <id_range>
                    <min>0</min>
                    <max>100</max>
                </id_range>
            </domains>
            <allow_unauthenticated_participants>false</allow_unauthenticated_participants>
            <enable_join_access_control>true</enable_join_access_control>
            <discovery_protection_kind>NONE</discovery_protection_kind>
            <liveliness_protection_kind>NONE</liveliness_protection_kind>
            <rtps_protection_kind>$1</rtps_protection_kind>
            <topic_access_rules>
$(topic_rule Tn NONE NONE false)
$(topic_rule Tms SIGN NONE true)
$(topic_rule Tme ENCRYPT NONE true)
$(topic_rule Tmo ENCRYPT_WITH_ORIGIN_AUTHENTICATION NONE true)
$(topic_rule Tds NONE SIGN true)
$(topic_rule Tde NONE ENCRYPT true)
$(topic_rule Tb ENCRYPT ENCRYPT true)
$(topic_rule Tbs SIGN_WITH_ORIGIN_AUTHENTICATION SIGN true)
            </topic_access_rules>
        </domain_rule>
    </domain_access_rules>
</dds>
X
}
grant() { # name subject
cat <<X
        <grant name="$1">
            <subject_name>$2</subject_name>
            <validity>
                <not_before>2023-01-01T00:00:00</not_before>
                <not_after>9999-01-01T00:00:00</not_after>
            </validity>
            <allow_rule>
                <domains>
                    <id>0</id>
                </domains>
                <publish>
                    <topics>
                        <topic>T*</topic>
                    </topics>
                </publish>
                <subscribe>
                    <topics>
                        <topic>T*</topic>
                    </topics>
                </subscribe>
            </allow_rule>
            <default>DENY</default>
        </grant>
X
}
cat > permissions_unsigned.xml <<X
<?xml version="1.0" encoding="UTF-8"?>
<dds xmlns:xsi="http://www.w3.org/2001/XMLSchema-instance"
    xsi:noNamespaceSchemaLocation="http://www.omg.org/spec/DDS-Security/20170901/omg_shared_ca_permissions.xsd">
    <permissions>
$(grant P1 "CN=participant1_common_name,O=Example Organization")
$(grant P2 "CN=participant2_common_name,O=Example Organization")
    </permissions>
</dds>
X
sign() { openssl smime -sign -in "$1" -text -out "$2" -signer $EX/permissions_ca.cert.pem -inkey $EX/permissions_ca_private_key.pem -passin file:$EX/password; }
sign permissions_unsigned.xml permissions.p7s
for k in NONE SIGN ENCRYPT SIGN_WITH_ORIGIN_AUTHENTICATION ENCRYPT_WITH_ORIGIN_AUTHENTICATION; do
  governance $k > governance_$k.xml
  sign governance_$k.xml governance_$k.p7s
  for p in p1 p2; do
    d=${k}_$p; mkdir -p $d
    cp ../$p/cert.pem ../$p/key.pem ../$p/identity_ca.cert.pem ../$p/permissions_ca.cert.pem $d/
    cp governance_$k.p7s $d/governance.p7s
    cp permissions.p7s $d/permissions.p7s
  done
done
