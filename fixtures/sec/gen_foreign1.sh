#!/bin/sh
# an outsider with participant1's subject name, certified by the foreign CA (run once; results committed)
set -e
cd "$(dirname "$0")"
mkdir -p foreign1
openssl ecparam -name prime256v1 -genkey -noout | openssl pkcs8 -topk8 -nocrypt -out foreign1/key.pem
openssl req -new -key foreign1/key.pem -subj "/O=Example Organization/CN=participant1_common_name" -out foreign1/req.pem
openssl x509 -req -in foreign1/req.pem -CA foreign/foreign_ca.cert.pem -CAkey foreign/foreign_ca_key.pem -passin pass:password123 -CAcreateserial -days 36500 -sha256 -out foreign1/cert.pem
cp foreign/identity_ca.cert.pem foreign/permissions_ca.cert.pem foreign/governance.p7s foreign/permissions.p7s foreign1/
rm -f foreign/foreign_ca.cert.srl
