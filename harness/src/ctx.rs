//! Per-run context: the chooser (all decisions), the trace (digest + optional
//! lines), counters (fault kinds fired, probes hit) and the state fingerprint.

use std::collections::BTreeMap;

use serde::{Deserialize, Serialize};
use simcore::{choice::Chooser, digest::Fnv};

#[derive(Clone, Debug, Serialize, Deserialize, PartialEq, Eq)]
pub struct Violation {
  /// stable key of the violated oracle clause (+ site), used for known findings
  pub class: String,
  pub detail: String,
}

impl Violation {
  pub fn new(class: impl Into<String>, detail: impl Into<String>) -> Self {
    Violation {
      class: class.into(),
      detail: detail.into(),
    }
  }
}

pub type Check = Result<(), Violation>;

pub struct Ctx {
  pub ch: Chooser,
  pub digest: Fnv,
  pub keep_lines: bool,
  pub lines: Vec<String>,
  pub stats: BTreeMap<String, u64>,
  pub fp: Fnv,
  pub nontrivial: bool,
  pub step: u64,
}

impl Ctx {
  pub fn new(ch: Chooser, keep_lines: bool) -> Self {
    Ctx {
      ch,
      digest: Fnv::new(),
      keep_lines,
      lines: Vec::new(),
      stats: BTreeMap::new(),
      fp: Fnv::new(),
      nontrivial: false,
      step: 0,
    }
  }

  /// Record one observable step.  Never draws, never reads a real clock.
  pub fn log(&mut self, s: &str) {
    self.step += 1;
    self.digest.str(s);
    if self.keep_lines && self.lines.len() < 20_000 {
      self
        .lines
        .push(format!("{:>5} t={:>12} {}", self.step, simcore::now_ns(), s));
    }
  }

  pub fn logf(&mut self, f: impl FnOnce() -> String) {
    let s = f();
    self.log(&s);
  }

  pub fn count(&mut self, key: &str) {
    self.add(key, 1);
  }

  pub fn add(&mut self, key: &str, n: u64) {
    if let Some(v) = self.stats.get_mut(key) {
      *v += n;
    } else {
      self.stats.insert(key.to_string(), n);
    }
  }

  /// fold an abstract protocol state into the run's fingerprint
  pub fn state(&mut self, v: u64) {
    self.fp.u64(v);
  }
}

#[derive(Clone, Debug, Serialize, Deserialize)]
pub struct RunOutput {
  pub seed: u64,
  pub digest: u64,
  pub fingerprint: u64,
  pub nontrivial: bool,
  pub sim_ns: u64,
  pub steps: u64,
  pub n_choices: usize,
  pub violation: Option<Violation>,
  /// present when there is a violation or when lines were requested
  pub choices: Option<Vec<u64>>,
  pub stats: BTreeMap<String, u64>,
  pub lines: Option<Vec<String>>,
}
