//! Shared pieces of engine E1 (single-threaded component simulation).

#![allow(dead_code)]

use std::net::{SocketAddr, SocketAddrV4};

use rustdds::{
  policy::{Durability, History, Reliability, ResourceLimits},
  QosPolicies, QosPolicyBuilder,
};

use crate::wire::{Eid, Prefix};

pub const USER_PORT: u16 = 7411;

pub fn node_addr(node: u32) -> SocketAddr {
  SocketAddr::V4(SocketAddrV4::new(simcore::node_ip(node), USER_PORT))
}

pub fn prefix_for(node: u32) -> Prefix {
  // vendor-neutral, unique per node, last byte = node for readable traces
  [
    0x01, 0x7f, 0xaa, 0x00, 0x00, 0x00, 0x00, 0x00, 0x00, 0x00, (node >> 8) as u8, node as u8,
  ]
}

pub const EID_READER_1: Eid = [0, 0, 0x11, 0x07]; // user-defined reader with key
pub const EID_READER_2: Eid = [0, 0, 0x12, 0x07];
pub const EID_READER_NOKEY: Eid = [0, 0, 0x13, 0x04];
pub const EID_WRITER_1: Eid = [0, 0, 0x21, 0x02]; // user-defined writer with key
pub const EID_WRITER_2: Eid = [0, 0, 0x22, 0x02];
pub const EID_WRITER_NOKEY: Eid = [0, 0, 0x23, 0x03];

pub fn qos(reliable: bool, keep_all: bool, depth: i32, transient_local: bool, max_samples: i32) -> QosPolicies {
  let mut b = QosPolicyBuilder::new();
  b = b.reliability(if reliable {
    Reliability::Reliable {
      max_blocking_time: rustdds::Duration::from_millis(100),
    }
  } else {
    Reliability::BestEffort
  });
  b = b.history(if keep_all {
    History::KeepAll
  } else {
    History::KeepLast { depth }
  });
  b = b.durability(if transient_local {
    Durability::TransientLocal
  } else {
    Durability::Volatile
  });
  if max_samples > 0 {
    b = b.resource_limits(ResourceLimits {
      max_samples,
      max_instances: max_samples,
      max_samples_per_instance: max_samples,
    });
  }
  b.build()
}

/// Payload with its 4-byte representation header (CDR_LE), `body_len` body
/// bytes that are a function of (writer, sn, position): every sample is
/// distinguishable from every other and from zero padding.
pub fn payload_for(writer_ix: u32, sn: i64, body_len: usize) -> Vec<u8> {
  let mut v = Vec::with_capacity(4 + body_len);
  v.extend_from_slice(&[0x00, 0x01, 0x00, 0x00]);
  let mut x = (writer_ix as u64) << 40 ^ (sn as u64) << 8 ^ 0x5bd1_e995;
  for _ in 0..body_len {
    x = x
      .wrapping_mul(6364136223846793005)
      .wrapping_add(1442695040888963407);
    let b = (x >> 33) as u8;
    // avoid 0 so trailing padding is never confused with data
    v.push(if b == 0 { 0x5a } else { b });
  }
  v
}

/// a == b up to zero padding of the shorter one to a 4-byte boundary
pub fn eq_mod_padding(handed: &[u8], written: &[u8]) -> bool {
  if handed == written {
    return true;
  }
  if handed.len() < written.len() {
    return false;
  }
  let padded = (written.len() + 3) & !3;
  handed.len() == padded
    && handed[..written.len()] == *written
    && handed[written.len()..].iter().all(|b| *b == 0)
}
