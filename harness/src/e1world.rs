//! Engine E1 world: several real nodes (`SimNode`) and scripted peers on one
//! simulated network with a discrete-event queue.  Every datagram a node emits
//! is captured at the `UDPSender` seam, passes the wire monitor, gets the
//! run's fault policy applied and is scheduled for delivery on simulated time.

#![allow(dead_code)]

use std::collections::{BTreeMap, BTreeSet};

use rustdds::verif::SimNode;

use crate::{
  ctx::{Check, Ctx, Violation},
  wire::{self, Sub},
};

pub const MS: u64 = 1_000_000;
pub const SEC: u64 = 1_000_000_000;

#[derive(Clone, Debug)]
pub struct NetCfg {
  pub drop_pct: u64,
  pub dup_pct: u64,
  pub min_lat: u64,
  pub jitter: u64,
}

impl NetCfg {
  pub fn clean() -> Self {
    NetCfg {
      drop_pct: 0,
      dup_pct: 0,
      min_lat: MS / 10,
      jitter: 0,
    }
  }
}

#[derive(Clone, Debug)]
pub struct InFlight {
  pub at: u64,
  pub seq: u64,
  pub src: u32,
  pub dst: u32,
  pub bytes: Vec<u8>,
}

#[derive(Clone, Debug, PartialEq, Eq)]
pub enum Ev {
  Deliver(u64),     // seq of in-flight datagram
  Timers(usize),    // node index: fire due timers
  Acknacks(usize),  // node index: route ACKNACKs from the receiver to its writers
  Periodic(usize, u8), // node index, 0 = pre-emptive acknacks, 1 = cache GC
}

/// one datagram as seen on the wire (after decode)
#[derive(Clone, Debug)]
pub struct Seen {
  pub at: u64,
  pub src: u32,
  pub dst: u32,
  pub subs: Vec<Sub>,
  pub len: usize,
}

pub struct World {
  pub nodes: Vec<SimNode>,
  pub node_ids: Vec<u32>,
  pub scripted: BTreeSet<u32>,
  /// datagrams that arrived at scripted peers: (at, src node, dst node, bytes)
  pub scripted_inbox: Vec<(u64, u32, u32, Vec<u8>)>,
  pub flights: BTreeMap<u64, InFlight>,
  pub next_seq: u64,
  pub net: NetCfg,
  pub faults_on: bool,
  /// directed pairs (src,dst) currently cut
  pub cut: BTreeSet<(u32, u32)>,
  /// kinds of submessage currently lost entirely (burst loss), by submessage id
  pub lose_kinds: BTreeSet<u8>,
  pub pending_acknacks: BTreeSet<usize>,
  pub periodic: Vec<(u64, usize, u8)>,
  pub periodic_on: bool,
  /// every datagram put on the wire since the last call to `drain_seen`
  pub seen: Vec<Seen>,
  pub total_sent: u64,
  pub last_fault_at: u64,
  /// targeted loss: drop the k-th datagram (1-based, counted over all datagrams put on the wire)
  pub drop_exact: BTreeSet<u64>,
}

pub fn v(class: &str, detail: String) -> Violation {
  Violation::new(class, detail)
}

impl World {
  pub fn new() -> Self {
    World {
      nodes: vec![],
      node_ids: vec![],
      scripted: BTreeSet::new(),
      scripted_inbox: vec![],
      flights: BTreeMap::new(),
      next_seq: 1,
      net: NetCfg::clean(),
      faults_on: false,
      cut: BTreeSet::new(),
      lose_kinds: BTreeSet::new(),
      pending_acknacks: BTreeSet::new(),
      periodic: vec![],
      periodic_on: true,
      seen: vec![],
      total_sent: 0,
      last_fault_at: 0,
      drop_exact: BTreeSet::new(),
    }
  }

  pub fn add_node(&mut self, n: SimNode) -> usize {
    let id = n.node_id;
    self.nodes.push(n);
    self.node_ids.push(id);
    let ix = self.nodes.len() - 1;
    let now = simcore::now_ns();
    self.periodic.push((now + 5 * SEC, ix, 0));
    self.periodic.push((now + 4 * SEC, ix, 1));
    ix
  }

  pub fn add_scripted(&mut self, node_id: u32) {
    self.scripted.insert(node_id);
  }

  fn node_of_ip(ip: std::net::Ipv4Addr) -> u32 {
    let o = ip.octets();
    ((o[1] as u32) << 8) | o[2] as u32
  }

  fn note_fault(&mut self) {
    self.last_fault_at = simcore::now_ns();
  }

  /// Move what the nodes have sent from the simulator's outbox onto the wire.
  pub fn flush_outbox(&mut self, ctx: &mut Ctx) -> Check {
    let out = simcore::take_outbox();
    for d in out {
      let (ip, _port) = match d.dst {
        std::net::SocketAddr::V4(a) => (*a.ip(), a.port()),
        _ => continue,
      };
      let dst = Self::node_of_ip(ip);
      self.total_sent += 1;
      let k = self.total_sent;
      // wire monitor: everything a real node emits must be decodable by an
      // independent implementation
      let subs = match wire::decode_msg(&d.bytes) {
        Ok((m, _)) => m.subs,
        Err(e) => {
          return Err(v(
            "C14/emitted-message-undecodable",
            format!("node {} emitted a datagram the independent decoder rejects: {e}", d.src_node),
          ))
        }
      };
      ctx.logf(|| {
        format!(
          "send #{k} n{}->n{} {}",
          d.src_node,
          dst,
          subs.iter().map(wire::sub_brief).collect::<Vec<_>>().join(",")
        )
      });
      self.seen.push(Seen {
        at: simcore::now_ns(),
        src: d.src_node,
        dst,
        subs: subs.clone(),
        len: d.bytes.len(),
      });
      if self.drop_exact.contains(&k) {
        ctx.count("fault.targeted_drop");
        ctx.logf(|| format!("  lost #{k} (targeted)"));
        self.note_fault();
        continue;
      }
      if self.faults_on {
        if self.cut.contains(&(d.src_node, dst)) {
          ctx.count("fault.partition_drop");
          ctx.logf(|| format!("  lost #{k} (partition)"));
          self.note_fault();
          continue;
        }
        let kind_lost = subs.iter().any(|s| {
          let id = match s {
            Sub::AckNack { .. } => wire::SM_ACKNACK,
            Sub::NackFrag { .. } => wire::SM_NACK_FRAG,
            Sub::Heartbeat { .. } => wire::SM_HEARTBEAT,
            Sub::Gap { .. } => wire::SM_GAP,
            Sub::Data { .. } => wire::SM_DATA,
            Sub::DataFrag { .. } => wire::SM_DATA_FRAG,
            _ => 0,
          };
          self.lose_kinds.contains(&id)
        });
        if kind_lost {
          ctx.count("fault.burst_kind_drop");
          ctx.logf(|| format!("  lost #{k} (burst loss of its kind)"));
          self.note_fault();
          continue;
        }
        if ctx.ch.chance(self.net.drop_pct, 100) {
          ctx.count("fault.drop");
          ctx.logf(|| format!("  lost #{k}"));
          self.note_fault();
          continue;
        }
      }
      let copies = if self.faults_on && ctx.ch.chance(self.net.dup_pct, 100) {
        ctx.count("fault.duplicate");
        self.note_fault();
        2
      } else {
        1
      };
      for _ in 0..copies {
        let lat = self.net.min_lat
          + if self.faults_on && self.net.jitter > 0 {
            let j = ctx.ch.draw(self.net.jitter / 100_000 + 1) * 100_000;
            if j > 0 {
              ctx.count("fault.delay");
            }
            j
          } else {
            0
          };
        let seq = self.next_seq;
        self.next_seq += 1;
        self.flights.insert(
          seq,
          InFlight {
            at: simcore::now_ns() + lat,
            seq,
            src: d.src_node,
            dst,
            bytes: d.bytes.clone(),
          },
        );
      }
    }
    Ok(())
  }

  /// a scripted peer puts a datagram on the wire (no monitor: it may be hostile)
  pub fn scripted_send(&mut self, src: u32, dst: u32, bytes: Vec<u8>, lat: u64) {
    let seq = self.next_seq;
    self.next_seq += 1;
    self.flights.insert(
      seq,
      InFlight {
        at: simcore::now_ns() + lat,
        seq,
        src,
        dst,
        bytes,
      },
    );
  }

  pub fn drain_seen(&mut self) -> Vec<Seen> {
    std::mem::take(&mut self.seen)
  }

  pub fn next_time(&self) -> Option<u64> {
    let mut t: Option<u64> = None;
    let mut upd = |x: u64| t = Some(t.map_or(x, |y: u64| y.min(x)));
    if let Some(f) = self.flights.values().map(|f| f.at).min() {
      upd(f);
    }
    if let Some(d) = simcore::next_deadline() {
      upd(d);
    }
    if self.periodic_on {
      if let Some(p) = self.periodic.iter().map(|p| p.0).min() {
        upd(p);
      }
    }
    if !self.pending_acknacks.is_empty() {
      upd(simcore::now_ns());
    }
    t
  }

  /// events enabled at the current instant
  pub fn enabled(&self) -> Vec<Ev> {
    let now = simcore::now_ns();
    let mut v = vec![];
    for ix in &self.pending_acknacks {
      v.push(Ev::Acknacks(*ix));
    }
    for f in self.flights.values() {
      if f.at <= now {
        v.push(Ev::Deliver(f.seq));
      }
    }
    let due = simcore::timers_due();
    let mut nodes_due: BTreeSet<usize> = BTreeSet::new();
    for (_, node) in due {
      if let Some(ix) = self.node_ids.iter().position(|n| *n == node) {
        nodes_due.insert(ix);
      }
    }
    for ix in nodes_due {
      v.push(Ev::Timers(ix));
    }
    if self.periodic_on {
      for (at, ix, k) in &self.periodic {
        if *at <= now {
          v.push(Ev::Periodic(*ix, *k));
        }
      }
    }
    v
  }

  pub fn exec(&mut self, ev: Ev, ctx: &mut Ctx) -> Check {
    match ev {
      Ev::Deliver(seq) => {
        let f = self.flights.remove(&seq).expect("flight");
        if let Some(ix) = self.node_ids.iter().position(|n| *n == f.dst) {
          ctx.logf(|| format!("recv n{} <- n{} {}", f.dst, f.src, wire::msg_brief(&f.bytes)));
          self.nodes[ix].deliver(&f.bytes);
          self.pending_acknacks.insert(ix);
        } else if self.scripted.contains(&f.dst) {
          self
            .scripted_inbox
            .push((simcore::now_ns(), f.src, f.dst, f.bytes));
        } else {
          ctx.count("net.no_such_host");
        }
      }
      Ev::Timers(ix) => {
        ctx.logf(|| format!("timers n{}", self.node_ids[ix]));
        self.nodes[ix].fire_timers();
      }
      Ev::Acknacks(ix) => {
        self.pending_acknacks.remove(&ix);
        self.nodes[ix].pump_acknacks();
      }
      Ev::Periodic(ix, k) => {
        let now = simcore::now_ns();
        self.periodic.retain(|p| !(p.1 == ix && p.2 == k && p.0 <= now));
        if k == 0 {
          self.nodes[ix].preemptive_acknacks();
          self.periodic.push((now + 5 * SEC, ix, 0));
        } else {
          self.nodes[ix].cache_gc();
          self.periodic.push((now + 4 * SEC, ix, 1));
        }
      }
    }
    self.flush_outbox(ctx)
  }

  /// One world step: if nothing is enabled now, jump the clock to the next
  /// event (not beyond `limit`); then run one enabled event chosen by the seed.
  /// Returns false if nothing happened (nothing scheduled before `limit`).
  pub fn step(&mut self, limit: u64, ctx: &mut Ctx) -> Result<bool, Violation> {
    let mut en = self.enabled();
    if en.is_empty() {
      match self.next_time() {
        Some(t) if t <= limit => {
          simcore::advance_to(t);
          en = self.enabled();
        }
        _ => return Ok(false),
      }
    }
    if en.is_empty() {
      return Ok(false);
    }
    let i = if en.len() > 1 { ctx.ch.index(en.len()) } else { 0 };
    if i > 0 {
      ctx.count("sched.non_first_choice");
    }
    let ev = en.swap_remove(i);
    self.exec(ev, ctx)?;
    Ok(true)
  }

  /// Run until simulated time `until` (inclusive), then set the clock there.
  pub fn run_until(&mut self, until: u64, ctx: &mut Ctx) -> Check {
    let mut guard = 0u64;
    while self.step(until, ctx)? {
      guard += 1;
      if guard > 2_000_000 {
        return Err(v(
          "HARNESS-ERROR/world-does-not-quiesce",
          "more than 2e6 events before the time limit".into(),
        ));
      }
    }
    simcore::advance_to(until);
    Ok(())
  }

  pub fn run_for(&mut self, d: u64, ctx: &mut Ctx) -> Check {
    let t = simcore::now_ns() + d;
    self.run_until(t, ctx)
  }
}
