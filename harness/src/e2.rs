//! Engine E2: whole `DomainParticipant`s.  Their two background threads are
//! real OS threads that only run while they hold the simulator's baton; the
//! application side runs on the driver thread.  This module is the world the
//! driver steps: it picks (from the run's seed) which parked thread continues
//! or which datagram is delivered next, applies the network fault policy and
//! advances simulated time when nothing is runnable.

#![allow(dead_code)]

use std::{
  cell::RefCell,
  collections::{BTreeMap, BTreeSet},
  net::SocketAddr,
};

use simcore::{EnabledKind, SrcId};

use crate::{
  ctx::{Check, Ctx, Violation},
  wire::{self, Sub},
};

pub const MS: u64 = 1_000_000;
pub const SEC: u64 = 1_000_000_000;

#[derive(Clone, Debug)]
pub struct Flight {
  pub at: u64,
  pub seq: u64,
  pub src: u32,
  pub dst: SocketAddr,
  pub bytes: Vec<u8>,
}

#[derive(Clone, Debug)]
pub struct NetCfg {
  pub drop_pct: u64,
  pub dup_pct: u64,
  pub min_lat: u64,
  pub jitter: u64,
}

pub struct State {
  pub ctx: Ctx,
  pub flights: BTreeMap<u64, Flight>,
  pub next_seq: u64,
  pub net: NetCfg,
  pub faults_on: bool,
  /// node pairs (src node, dst node) currently cut
  pub cut: BTreeSet<(u32, u32)>,
  /// nodes whose background threads are not scheduled (stalled / crashed)
  pub stalled: BTreeSet<u32>,
  /// targeted loss: every datagram that carries a DATA / DATAFRAG of a user writer with one of these
  /// sequence numbers is lost (first transmission and repairs alike) while faults are on
  pub lose_sns: BTreeSet<i64>,
  pub scripted: BTreeSet<u32>,
  pub scripted_inbox: Vec<(u64, u32, SocketAddr, Vec<u8>)>,
  pub violation: Option<Violation>,
  pub total_sent: u64,
  pub last_fault_at: u64,
  pub log_wire: bool,
  pub log_sched: bool,
  /// per (src node) datagram transformer hook: returns replacement bytes (fault `foreign parameter injection` etc.)
  pub mangle: Option<Box<dyn FnMut(&mut Ctx, u32, &SocketAddr, &[u8]) -> Option<Vec<u8>>>>,
  pub sent_by_kind: BTreeMap<&'static str, u64>,
  pub steps: u64,
  /// per (src node, dst node): (time of the last participant announcement delivered, largest gap so far)
  pub spdp_seen: BTreeMap<(u32, u32), (u64, u64)>,
}

thread_local! {
  static ST: RefCell<Option<State>> = const { RefCell::new(None) };
}

pub fn with<R>(f: impl FnOnce(&mut State) -> R) -> R {
  ST.with(|s| {
    let mut b = s.borrow_mut();
    f(b.as_mut().expect("e2: no state"))
  })
}

/// Move the run's context into the world for the duration of the run.
pub fn enter(ctx: &mut Ctx) {
  let moved = std::mem::replace(ctx, Ctx::new(simcore::choice::Chooser::from_choices(vec![]), false));
  let st = State {
    ctx: moved,
    flights: BTreeMap::new(),
    next_seq: 1,
    net: NetCfg {
      drop_pct: 0,
      dup_pct: 0,
      min_lat: 100_000,
      jitter: 0,
    },
    faults_on: false,
    cut: BTreeSet::new(),
    stalled: BTreeSet::new(),
    lose_sns: BTreeSet::new(),
    scripted: BTreeSet::new(),
    scripted_inbox: vec![],
    violation: None,
    total_sent: 0,
    last_fault_at: 0,
    log_wire: true,
    log_sched: std::env::var_os("VERIF_E2_SCHED").is_some(),
    mangle: None,
    sent_by_kind: BTreeMap::new(),
    steps: 0,
    spdp_seen: BTreeMap::new(),
  };
  ST.with(|s| *s.borrow_mut() = Some(st));
  simcore::set_step_hook(Some(Box::new(|limit| step(limit))));
}

pub fn leave(ctx: &mut Ctx) {
  simcore::set_step_hook(None);
  simcore::set_yield_hook(None);
  let st = ST.with(|s| s.borrow_mut().take()).expect("e2: no state");
  *ctx = st.ctx;
}

pub fn check() -> Check {
  match with(|s| s.violation.take()) {
    Some(v) => Err(v),
    None => Ok(()),
  }
}

pub fn log(s: &str) {
  with(|st| st.ctx.log(s));
}

pub fn count(k: &str) {
  with(|st| st.ctx.count(k));
}

fn node_of_ip(ip: std::net::Ipv4Addr) -> u32 {
  let o = ip.octets();
  ((o[1] as u32) << 8) | o[2] as u32
}

/// Take what the participants sent out of the simulator's outbox, put it on
/// the simulated wire (faults applied).
pub fn flush_outbox() {
  let out = simcore::take_outbox();
  if out.is_empty() {
    return;
  }
  with(|st| {
    for d in out {
      st.total_sent += 1;
      let k = st.total_sent;
      let decoded = wire::decode_msg(&d.bytes);
      match &decoded {
        Ok((m, _)) => {
          for s in &m.subs {
            *st.sent_by_kind.entry(wire::sub_name(s)).or_insert(0) += 1;
          }
          if st.log_wire {
            let b = m.subs.iter().map(wire::sub_brief).collect::<Vec<_>>().join(",");
            st.ctx.log(&format!("send #{k} n{}->{} {}", d.src_node, d.dst, b));
          }
        }
        Err(e) => {
          if st.violation.is_none() {
            st.violation = Some(Violation::new(
              "C14/emitted-message-undecodable",
              format!("node {} emitted a datagram the independent decoder rejects: {e}", d.src_node),
            ));
          }
        }
      }
      let mut bytes = d.bytes.clone();
      if let Some(mut m) = st.mangle.take() {
        if let Some(nb) = m(&mut st.ctx, d.src_node, &d.dst, &bytes) {
          bytes = nb;
        }
        st.mangle = Some(m);
      }
      // loss and partitions are decided per receiver at delivery time (every
      // receiver of a multicast loses independently; traffic of a host to itself
      // never touches the wire)
      let copies = if st.faults_on && st.ctx.ch.chance(st.net.dup_pct, 100) {
        st.ctx.count("fault.duplicate");
        st.last_fault_at = simcore::now_ns();
        2
      } else {
        1
      };
      for _ in 0..copies {
        let lat = st.net.min_lat
          + if st.faults_on && st.net.jitter > 0 {
            let j = st.ctx.ch.draw(st.net.jitter / 100_000 + 1) * 100_000;
            if j > 0 {
              st.ctx.count("fault.delay");
            }
            j
          } else {
            0
          };
        let seq = st.next_seq;
        st.next_seq += 1;
        st.flights.insert(
          seq,
          Flight {
            at: simcore::now_ns() + lat,
            seq,
            src: d.src_node,
            dst: d.dst,
            bytes: bytes.clone(),
          },
        );
      }
    }
  });
}

/// a scripted peer puts a datagram on the wire
pub fn scripted_send(src: u32, dst: SocketAddr, bytes: Vec<u8>, lat: u64) {
  with(|st| {
    let seq = st.next_seq;
    st.next_seq += 1;
    st.flights.insert(
      seq,
      Flight {
        at: simcore::now_ns() + lat,
        seq,
        src,
        dst,
        bytes,
      },
    );
  });
}

#[derive(Clone, Debug)]
enum Choice {
  Thread(simcore::Tid, Option<Vec<SrcId>>),
  Deliver(u64),
}

const SPDP_WRITER: [u8; 4] = [0x00, 0x01, 0x00, 0xc2];

fn is_spdp_announcement(bytes: &[u8]) -> bool {
  match wire::decode_msg(bytes) {
    Ok((m, _)) => m.subs.iter().any(|s| matches!(s, Sub::Data { writer, .. } if *writer == SPDP_WRITER)),
    Err(_) => false,
  }
}

fn deliver(seq: u64) {
  let f = with(|st| st.flights.remove(&seq)).expect("flight");
  let socks = simcore::route(f.dst);
  if socks.is_empty() {
    // a scripted peer?
    if let SocketAddr::V4(a) = f.dst {
      let n = node_of_ip(*a.ip());
      with(|st| {
        if st.scripted.contains(&n) {
          st.scripted_inbox.push((simcore::now_ns(), f.src, f.dst, f.bytes.clone()));
        } else {
          st.ctx.count("net.no_listener");
        }
      });
    }
    return;
  }
  let spdp = is_spdp_announcement(&f.bytes);
  let from_scripted = with(|st| st.scripted.contains(&f.src));
  for (sock, node) in socks {
    let own = node == f.src && !from_scripted;
    let lost = !own
      && with(|st| {
        if !st.faults_on {
          return false;
        }
        if st.cut.contains(&(f.src, node)) {
          st.ctx.count("fault.partition_drop");
          st.last_fault_at = simcore::now_ns();
          return true;
        }
        if !st.lose_sns.is_empty() {
          if let Ok((m, _)) = crate::wire::decode_msg(&f.bytes) {
            let hit = m.subs.iter().any(|s| match s {
              crate::wire::Sub::Data { writer, sn, .. } | crate::wire::Sub::DataFrag { writer, sn, .. } => {
                (writer[3] == 0x02 || writer[3] == 0x03) && st.lose_sns.contains(sn)
              }
              _ => false,
            });
            if hit {
              st.ctx.count("fault.targeted_sample_loss");
              st.last_fault_at = simcore::now_ns();
              return true;
            }
          }
        }
        if st.ctx.ch.chance(st.net.drop_pct, 100) {
          st.ctx.count("fault.drop");
          st.last_fault_at = simcore::now_ns();
          return true;
        }
        false
      });
    if lost {
      continue;
    }
    if spdp {
      with(|st| {
        let now = simcore::now_ns();
        let e = st.spdp_seen.entry((f.src, node)).or_insert((now, 0));
        e.1 = e.1.max(now - e.0);
        e.0 = now;
      });
    }
    simcore::deliver(sock, f.bytes.clone());
  }
  // multicast also reaches scripted peers that listen
  if f.dst.ip().is_multicast() {
    with(|st| {
      if !st.scripted.is_empty() {
        st.scripted_inbox.push((simcore::now_ns(), f.src, f.dst, f.bytes.clone()));
      }
    });
  }
}

/// largest interval (ns) without a delivered participant announcement from `src` to `dst`, up to now
pub fn spdp_gap(src: u32, dst: u32) -> u64 {
  with(|st| match st.spdp_seen.get(&(src, dst)) {
    None => u64::MAX,
    Some((last, gap)) => (*gap).max(simcore::now_ns() - *last),
  })
}

/// One unit of world progress; `limit`: do not move the clock beyond it.
pub fn step(limit: Option<u64>) -> bool {
  flush_outbox();
  loop {
    let now = simcore::now_ns();
    let mut choices: Vec<Choice> = vec![];
    let stalled = with(|st| st.stalled.clone());
    for e in simcore::enabled() {
      if stalled.contains(&e.node) {
        continue;
      }
      match e.kind {
        EnabledKind::PollReady { ready } if ready.len() > 1 => {
          // one poll call may see only the first few of the ready sources
          choices.push(Choice::Thread(e.tid, Some(ready.iter().map(|r| r.0).collect())));
        }
        _ => choices.push(Choice::Thread(e.tid, None)),
      }
    }
    let due: Vec<u64> = with(|st| st.flights.values().filter(|f| f.at <= now).map(|f| f.seq).collect());
    for s in due {
      choices.push(Choice::Deliver(s));
    }
    if choices.is_empty() {
      // nothing runnable: discrete-event jump
      let nf = with(|st| st.flights.values().map(|f| f.at).min());
      let nd = simcore::next_deadline();
      let next = match (nf, nd) {
        (Some(a), Some(b)) => Some(a.min(b)),
        (a, b) => a.or(b),
      };
      match next {
        Some(t) if limit.map_or(true, |l| t <= l) && t > now => {
          simcore::advance_to(t);
          continue;
        }
        Some(t) if t <= now => {
          // due timers exist but belong to stalled nodes only
          return false;
        }
        _ => return false,
      }
    }
    let i = with(|st| {
      st.steps += 1;
      if choices.len() > 1 {
        let i = st.ctx.ch.index(choices.len());
        if i > 0 {
          st.ctx.count("sched.non_first_choice");
        }
        i
      } else {
        0
      }
    });
    match choices.swap_remove(i) {
      Choice::Deliver(seq) => {
        deliver(seq);
      }
      Choice::Thread(tid, ready) => {
        let pick: Option<Vec<SrcId>> = match ready {
          None => None,
          Some(mut r) => with(|st| {
            // mio 0.6 hands out user-space readiness events in the order in which the
            // sources became ready (FIFO queue), so causal order between channels is
            // preserved; what varies with timing is how many of them one poll call
            // sees.  The seed therefore picks a non-empty PREFIX of the queue.
            if st.ctx.ch.chance(1, 4) {
              let keep = 1 + st.ctx.ch.index(r.len());
              if keep < r.len() {
                st.ctx.count("sched.partial_event_batch");
              }
              r.truncate(keep);
              Some(r)
            } else {
              None
            }
          }),
        };
        if with(|st| st.log_sched) {
          let name = simcore::thread_states()
            .into_iter()
            .find(|t| t.0 == tid)
            .map(|t| format!("{}@n{} {:?}", t.1, t.2, t.3))
            .unwrap_or_default();
          with(|st| st.ctx.log(&format!("run {name} pick={pick:?}")));
        }
        match simcore::run_thread(tid, pick.as_deref()) {
          Ok(()) => {}
          Err(h) => {
            with(|st| {
              if st.violation.is_none() {
                st.violation = Some(Violation::new(
                  "hang/background-thread",
                  format!(
                    "thread '{}' did not reach its next scheduling point within the wall-clock limit",
                    h.name
                  ),
                ));
              }
            });
            return false;
          }
        }
        flush_outbox();
      }
    }
    return true;
  }
}

/// Run the world until simulated time `until`, then set the clock there.
pub fn run_until(until: u64) -> Check {
  let mut guard = 0u64;
  while step(Some(until)) {
    guard += 1;
    check()?;
    if guard > 3_000_000 {
      return Err(Violation::new(
        "HARNESS-ERROR/e2-world-does-not-quiesce",
        "more than 3e6 steps before the time limit",
      ));
    }
  }
  check()?;
  if simcore::now_ns() < until {
    simcore::advance_to(until);
  }
  Ok(())
}

pub fn run_for(d: u64) -> Check {
  run_until(simcore::now_ns() + d)
}

/// up to `n` steps without moving the clock beyond now + `max_dt`
pub fn run_steps(n: u64, max_dt: u64) -> Check {
  let lim = simcore::now_ns() + max_dt;
  for _ in 0..n {
    if !step(Some(lim)) {
      break;
    }
    check()?;
  }
  check()
}

/// run everything that is enabled at the current instant
pub fn settle() -> Check {
  let now = simcore::now_ns();
  let mut guard = 0;
  while step(Some(now)) {
    guard += 1;
    check()?;
    if guard > 1_000_000 {
      return Err(Violation::new(
        "HARNESS-ERROR/e2-settle",
        "does not settle at one instant",
      ));
    }
  }
  check()
}

pub fn drain_scripted_inbox() -> Vec<(u64, u32, SocketAddr, Vec<u8>)> {
  with(|st| std::mem::take(&mut st.scripted_inbox))
}

pub fn subs_of(bytes: &[u8]) -> Vec<Sub> {
  wire::decode_msg(bytes).map(|(m, _)| m.subs).unwrap_or_default()
}
