//! Engine E2 rig "reader under test": a real participant with real
//! DataReaders, matched through real discovery with real DataWriters of a
//! second participant.  After the match the writer participant is stalled (a
//! peer that went silent) and a scripted peer speaks with the writers' GUIDs,
//! so every arrival at the reader is seed-generated wire traffic.

#![allow(dead_code)]

use std::net::{SocketAddr, SocketAddrV4};

use rustdds::{
  policy::{Durability, History, Reliability, ResourceLimits},
  DomainParticipant, Keyed, QosPolicies, QosPolicyBuilder,
};
use serde::{Deserialize, Serialize};

use crate::{
  ctx::{Check, Violation},
  e2::{self, MS, SEC},
  wire::{self, Eid, Guid, Param, Sub},
};

#[derive(Serialize, Deserialize, Debug, Clone, PartialEq, Eq)]
pub struct Msg {
  pub k: u32,
  pub v: Vec<u8>,
}
impl Keyed for Msg {
  type K = u32;
  fn key(&self) -> u32 {
    self.k
  }
}

#[derive(Serialize, Deserialize, Debug, Clone, PartialEq, Eq)]
pub struct Blob {
  pub v: Vec<u8>,
}

pub const WNODE: u32 = 1;
pub const RNODE: u32 = 2;

pub fn herr(what: &str, e: impl std::fmt::Debug) -> Violation {
  Violation::new(format!("HARNESS-ERROR/{what}"), format!("{e:?}"))
}

pub fn qos(reliable: bool, history: History, tl: bool) -> QosPolicies {
  QosPolicyBuilder::new()
    .reliability(if reliable {
      Reliability::Reliable {
        max_blocking_time: rustdds::Duration::from_millis(100),
      }
    } else {
      Reliability::BestEffort
    })
    .history(history)
    .durability(if tl {
      Durability::TransientLocal
    } else {
      Durability::Volatile
    })
    .resource_limits(ResourceLimits {
      max_samples: 100_000,
      max_instances: 100_000,
      max_samples_per_instance: 100_000,
    })
    .build()
}

pub fn new_participant(node: u32) -> Result<Leak<DomainParticipant>, Violation> {
  simcore::set_node(node);
  DomainParticipant::new(0).map(leak).map_err(|e| herr("participant", e))
}

/// CDR_LE bytes of `Msg { k, v }` with representation header
pub fn msg_payload(k: u32, v: &[u8]) -> Vec<u8> {
  let mut p = vec![0x00, 0x01, 0x00, 0x00];
  p.extend_from_slice(&k.to_le_bytes());
  p.extend_from_slice(&(v.len() as u32).to_le_bytes());
  p.extend_from_slice(v);
  p
}

/// CDR_LE bytes of `Blob { v }`
pub fn blob_payload(v: &[u8]) -> Vec<u8> {
  let mut p = vec![0x00, 0x01, 0x00, 0x00];
  p.extend_from_slice(&(v.len() as u32).to_le_bytes());
  p.extend_from_slice(v);
  p
}

/// serialized key (CDR_LE u32) with representation header
pub fn key_payload(k: u32) -> Vec<u8> {
  let mut p = vec![0x00, 0x01, 0x00, 0x00];
  p.extend_from_slice(&k.to_le_bytes());
  p
}

pub fn key_hash(k: u32) -> [u8; 16] {
  let mut h = [0u8; 16];
  h[..4].copy_from_slice(&k.to_be_bytes());
  h
}

pub fn status_info(disposed: bool, unregistered: bool) -> Param {
  let mut f = 0u8;
  if disposed {
    f |= 1;
  }
  if unregistered {
    f |= 2;
  }
  Param {
    pid: wire::PID_STATUS_INFO,
    value: vec![0, 0, 0, f],
  }
}

pub fn reader_locator() -> SocketAddr {
  SocketAddr::V4(SocketAddrV4::new(simcore::node_ip(RNODE), 7411))
}

/// the scripted peer speaks as writer `w` (GUID of a real, now silent writer)
pub fn send_as(w: &Guid, subs: Vec<Sub>, be: bool, lat: u64) {
  let bytes = wire::encode_msg(&wire::prefix_of(w), &subs, be);
  let brief = subs.iter().map(wire::sub_brief).collect::<Vec<_>>().join(",");
  e2::log(&format!("peer {:02x}{:02x} sends {brief}", w[11], w[14]));
  e2::scripted_send(WNODE, reader_locator(), bytes, lat);
}

pub fn data_sub(w: &Guid, sn: i64, payload: Vec<u8>) -> Sub {
  Sub::Data {
    reader: wire::EID_UNKNOWN,
    writer: wire::eid_of(w),
    sn,
    inline_qos: None,
    has_data: true,
    has_key: false,
    payload: Some(payload),
  }
}

pub fn dispose_by_key_sub(w: &Guid, sn: i64, key_payload: Vec<u8>) -> Sub {
  Sub::Data {
    reader: wire::EID_UNKNOWN,
    writer: wire::eid_of(w),
    sn,
    inline_qos: Some(vec![status_info(true, true)]),
    has_data: false,
    has_key: true,
    payload: Some(key_payload),
  }
}

pub fn dispose_by_hash_sub(w: &Guid, sn: i64, hash: [u8; 16]) -> Sub {
  Sub::Data {
    reader: wire::EID_UNKNOWN,
    writer: wire::eid_of(w),
    sn,
    inline_qos: Some(vec![
      Param {
        pid: wire::PID_KEY_HASH,
        value: hash.to_vec(),
      },
      status_info(true, true),
    ]),
    has_data: false,
    has_key: false,
    payload: None,
  }
}

pub fn hb_sub(w: &Guid, first: i64, last: i64, count: i32, final_flag: bool) -> Sub {
  Sub::Heartbeat {
    reader: wire::EID_UNKNOWN,
    writer: wire::eid_of(w),
    first,
    last,
    count,
    final_flag,
    liveliness: false,
  }
}

pub fn eid_of_guid(g: rustdds::GUID) -> (Guid, Eid) {
  let b = g.to_bytes();
  (b, wire::eid_of(&b))
}

/// run the world in slices until `done()` or `max` simulated time has passed
pub fn run_until_cond(max: u64, slice: u64, mut done: impl FnMut() -> bool) -> Result<bool, Violation> {
  let end = simcore::now_ns() + max;
  loop {
    if done() {
      return Ok(true);
    }
    if simcore::now_ns() >= end {
      return Ok(false);
    }
    e2::run_for(slice)?;
  }
}

pub fn stall_writer_node() {
  e2::with(|st| {
    st.stalled.insert(WNODE);
  });
  e2::log("writer participant goes silent; a scripted peer takes over its writers' identities");
}

pub fn settle_ms(ms: u64) -> Check {
  e2::run_for(ms * MS)
}

pub const DISCOVERY_BUDGET: u64 = 20 * SEC;

/// Simulated participants and their entities are never dropped implicitly: a
/// run ends with the process of its forked child, and a participant whose
/// threads are stalled could not be joined anyway.  Deliberate deletion (C07)
/// uses `Leak::delete`.
pub struct Leak<T>(std::mem::ManuallyDrop<T>);

pub fn leak<T>(x: T) -> Leak<T> {
  Leak(std::mem::ManuallyDrop::new(x))
}

impl<T> Leak<T> {
  /// really drop the value (runs RustDDS' Drop under the simulator)
  pub fn delete(mut self) {
    unsafe { std::mem::ManuallyDrop::drop(&mut self.0) }
  }
  pub fn into_inner(self) -> T {
    std::mem::ManuallyDrop::into_inner(self.0)
  }
}

impl<T> std::ops::Deref for Leak<T> {
  type Target = T;
  fn deref(&self) -> &T {
    &self.0
  }
}

impl<T> std::ops::DerefMut for Leak<T> {
  fn deref_mut(&mut self) -> &mut T {
    &mut self.0
  }
}
