//! Process isolation: every batch of simulated runs executes in a forked
//! child, each run in a fresh thread with the deterministic-randomness
//! interposer reset.  A child that dies or hangs costs only its batch; the
//! culprit is then isolated by re-running the batch one run per child.

use std::{
  io::Write,
  os::fd::FromRawFd,
  panic::{catch_unwind, AssertUnwindSafe},
  sync::Mutex,
  time::{Duration, Instant},
};

use simcore::choice::Chooser;

use crate::{
  ctx::{Ctx, RunOutput, Violation},
  props,
};

#[derive(Clone, Debug)]
pub struct RunInput {
  pub seed: u64,
  pub choices: Option<Vec<u64>>,
}

#[derive(Clone, Debug)]
pub struct Job {
  pub prop: String,
  pub tier: String,
  pub inputs: Vec<RunInput>,
  pub keep_lines: bool,
  /// wall-clock limit of one run inside the child (hang watchdog)
  pub watchdog_s: f64,
}

#[derive(Debug)]
pub enum ChildEnd {
  Ok(Vec<RunOutput>),
  Died { status: i32, done: Vec<RunOutput> },
  Timeout { done: Vec<RunOutput> },
}

// ---------------------------------------------------------------------------
// deterministic OS randomness (LD_PRELOAD libdetrand.so)
// ---------------------------------------------------------------------------

type ResetFn = unsafe extern "C" fn(u64);

fn detrand_reset_fn() -> Option<ResetFn> {
  unsafe {
    let p = libc::dlsym(
      libc::RTLD_DEFAULT,
      b"verif_detrand_reset\0".as_ptr() as *const libc::c_char,
    );
    if p.is_null() {
      None
    } else {
      Some(std::mem::transmute::<*mut libc::c_void, ResetFn>(p))
    }
  }
}

pub fn detrand_loaded() -> bool {
  detrand_reset_fn().is_some()
}

fn detrand_reset(seed: u64) {
  if let Some(f) = detrand_reset_fn() {
    unsafe { f(seed) }
  }
}

// ---------------------------------------------------------------------------
// panic capture
// ---------------------------------------------------------------------------

static PANICS: Mutex<Vec<(String, String)>> = Mutex::new(Vec::new());
#[allow(clippy::type_complexity)]
static WATCH: Mutex<Option<(Instant, u64, Option<Vec<u64>>)>> = Mutex::new(None);

pub fn install_panic_hook() {
  std::panic::set_hook(Box::new(|info| {
    let loc = info
      .location()
      .map(|l| format!("{}:{}", l.file(), l.line()))
      .unwrap_or_else(|| "?".into());
    let msg = if let Some(s) = info.payload().downcast_ref::<&str>() {
      s.to_string()
    } else if let Some(s) = info.payload().downcast_ref::<String>() {
      s.clone()
    } else {
      "<non-string panic>".into()
    };
    if std::env::var_os("VERIF_PANIC_TRACE").is_some() {
      eprintln!("PANIC {loc}: {msg}\n{}", std::backtrace::Backtrace::force_capture());
    }
    PANICS
      .lock()
      .unwrap_or_else(|e| e.into_inner())
      .push((loc, msg));
  }));
}

pub fn take_panics() -> Vec<(String, String)> {
  std::mem::take(&mut *PANICS.lock().unwrap_or_else(|e| e.into_inner()))
}

fn is_harness_location(loc: &str) -> bool {
  loc.starts_with("src/") || loc.starts_with("/verif/")
}

/// Execute one simulated run in the current process (fresh thread).
pub fn exec_one(prop: &str, tier: &str, input: &RunInput, keep_lines: bool) -> RunOutput {
  let prop = prop.to_string();
  let tier = tier.to_string();
  let input = input.clone();
  let h = std::thread::Builder::new()
    .name("sim-driver".into())
    .stack_size(64 << 20)
    .spawn(move || {
      detrand_reset(input.seed ^ 0xD15E_A5E5);
      simcore::reset();
      let _ = take_panics();
      let ch = match &input.choices {
        Some(c) => Chooser::from_choices(c.clone()),
        None => Chooser::from_seed(input.seed),
      };
      let mut ctx = Ctx::new(ch, keep_lines);
      let res = catch_unwind(AssertUnwindSafe(|| props::run(&prop, &tier, &mut ctx)));
      let panics = take_panics();
      let violation = match res {
        Ok(Ok(())) => {
          // a panic in a simulated background thread that the scenario did not notice
          panics.first().map(|(loc, msg)| {
            if is_harness_location(loc) {
              Violation::new(format!("HARNESS-ERROR/panic@{loc}"), msg.clone())
            } else {
              Violation::new(format!("panic@{loc}"), msg.clone())
            }
          })
        }
        Ok(Err(v)) => Some(v),
        Err(_) => {
          let (loc, msg) = panics
            .last()
            .cloned()
            .unwrap_or_else(|| ("?".into(), "?".into()));
          if is_harness_location(&loc) {
            Some(Violation::new(format!("HARNESS-ERROR/panic@{loc}"), msg))
          } else {
            Some(Violation::new(format!("panic@{loc}"), msg))
          }
        }
      };
      let sim_ns = if simcore::is_active() {
        simcore::now_ns()
      } else {
        0
      };
      let has_v = violation.is_some();
      RunOutput {
        seed: input.seed,
        digest: ctx.digest.get(),
        fingerprint: ctx.fp.get(),
        nontrivial: ctx.nontrivial,
        sim_ns,
        steps: ctx.step,
        n_choices: ctx.ch.record.len(),
        violation,
        choices: if has_v || keep_lines {
          Some(ctx.ch.record.clone())
        } else {
          None
        },
        stats: std::mem::take(&mut ctx.stats),
        lines: if keep_lines {
          Some(std::mem::take(&mut ctx.lines))
        } else {
          None
        },
      }
    })
    .expect("spawn driver thread");
  match h.join() {
    Ok(o) => o,
    Err(_) => RunOutput {
      seed: 0,
      digest: 0,
      fingerprint: 0,
      nontrivial: false,
      sim_ns: 0,
      steps: 0,
      n_choices: 0,
      violation: Some(Violation::new(
        "HARNESS-ERROR/driver-thread-died",
        "the driver thread panicked outside catch_unwind",
      )),
      choices: None,
      stats: Default::default(),
      lines: None,
    },
  }
}

static ABORT_FD: std::sync::atomic::AtomicI32 = std::sync::atomic::AtomicI32::new(-1);

extern "C" fn on_abort(_sig: i32) {
  let fd = ABORT_FD.load(std::sync::atomic::Ordering::SeqCst);
  let cur = WATCH.try_lock().ok().and_then(|g| g.clone());
  let (seed, replayed) = match cur {
    Some((_, seed, replayed)) => (seed, replayed),
    None => (0, None),
  };
  let choices = simcore::choice::mirror_snapshot().or(replayed);
  let refused = crate::meter::REFUSED.load(std::sync::atomic::Ordering::Relaxed);
  let (class, detail) = if refused > 0 {
    (
      "abort/allocation-refused",
      format!("the process aborted: an allocation of {refused} bytes was requested (refused above 2 GiB)"),
    )
  } else {
    ("abort/signal-6", "the process aborted (SIGABRT)".to_string())
  };
  let r = RunOutput {
    seed,
    digest: 0,
    fingerprint: 0,
    nontrivial: false,
    sim_ns: 0,
    steps: 0,
    n_choices: choices.as_ref().map_or(0, |c| c.len()),
    violation: Some(Violation::new(class, detail)),
    choices,
    stats: Default::default(),
    lines: None,
  };
  let line = serde_json::to_string(&r).unwrap_or_default() + "\n";
  unsafe {
    libc::write(fd, line.as_ptr() as *const libc::c_void, line.len());
    libc::_exit(4);
  }
}

/// Run a job in a forked child; results stream back over a pipe.
pub fn run_forked(job: &Job, timeout: Duration) -> ChildEnd {
  let mut fds = [0i32; 2];
  unsafe {
    if libc::pipe(fds.as_mut_ptr()) != 0 {
      panic!("pipe failed");
    }
  }
  let pid = unsafe { libc::fork() };
  if pid < 0 {
    panic!("fork failed");
  }
  if pid == 0 {
    // child
    unsafe {
      libc::close(fds[0]);
      // keep runaway allocations from taking the machine down (C06 inputs)
      let lim = libc::rlimit {
        rlim_cur: 8 << 30,
        rlim_max: 8 << 30,
      };
      libc::setrlimit(libc::RLIMIT_AS, &lim);
    }
    let mut out = unsafe { std::fs::File::from_raw_fd(fds[1]) };
    let out_fd = fds[1];
    // hang watchdog (one thread per child): if a run does not return in time,
    // report it with the decisions it had drawn so far (its replay) and end the child
    {
      let limit = Duration::from_secs_f64(job.watchdog_s.max(1.0));
      std::thread::spawn(move || loop {
        std::thread::sleep(Duration::from_millis(50));
        let cur = WATCH.lock().unwrap_or_else(|e| e.into_inner()).clone();
        if let Some((start, seed, replayed)) = cur {
          if start.elapsed() >= limit {
            let choices = simcore::choice::mirror_snapshot().or(replayed);
            let r = RunOutput {
              seed,
              digest: 0,
              fingerprint: 0,
              nontrivial: false,
              sim_ns: 0,
              steps: 0,
              n_choices: choices.as_ref().map_or(0, |c| c.len()),
              violation: Some(Violation::new(
                "hang/wall-clock",
                format!("the run did not return within {limit:?} of wall-clock time (a call never came back)"),
              )),
              choices,
              stats: Default::default(),
              lines: None,
            };
            let line = serde_json::to_string(&r).unwrap() + "\n";
            unsafe {
              libc::write(out_fd, line.as_ptr() as *const libc::c_void, line.len());
              libc::_exit(3);
            }
          }
        }
      });
    }
    // a process abort (allocation failure, double panic) is reported like a hang: with the
    // decisions drawn so far
    ABORT_FD.store(out_fd, std::sync::atomic::Ordering::SeqCst);
    unsafe {
      libc::signal(libc::SIGABRT, on_abort as usize);
    }
    for inp in &job.inputs {
      simcore::choice::mirror_start();
      *WATCH.lock().unwrap_or_else(|e| e.into_inner()) = Some((Instant::now(), inp.seed, inp.choices.clone()));
      let r = exec_one(&job.prop, &job.tier, inp, job.keep_lines);
      *WATCH.lock().unwrap_or_else(|e| e.into_inner()) = None;
      simcore::choice::mirror_stop();
      let line = serde_json::to_string(&r).unwrap();
      let _ = out.write_all(line.as_bytes());
      let _ = out.write_all(b"\n");
      let _ = out.flush();
    }
    drop(out);
    unsafe { libc::_exit(0) };
  }
  // parent
  unsafe { libc::close(fds[1]) };
  let start = Instant::now();
  let mut buf: Vec<u8> = Vec::new();
  let mut timed_out = false;
  loop {
    let left = timeout.saturating_sub(start.elapsed());
    if left.is_zero() {
      timed_out = true;
      break;
    }
    let mut pfd = libc::pollfd {
      fd: fds[0],
      events: libc::POLLIN,
      revents: 0,
    };
    let ms = left.as_millis().min(1000) as i32;
    let r = unsafe { libc::poll(&mut pfd, 1, ms) };
    if r < 0 {
      let e = std::io::Error::last_os_error();
      if e.kind() == std::io::ErrorKind::Interrupted {
        continue;
      }
      break;
    }
    if r == 0 {
      continue;
    }
    let mut tmp = [0u8; 65536];
    let n = unsafe { libc::read(fds[0], tmp.as_mut_ptr() as *mut libc::c_void, tmp.len()) };
    if n <= 0 {
      break; // EOF
    }
    buf.extend_from_slice(&tmp[..n as usize]);
  }
  unsafe { libc::close(fds[0]) };
  let mut status: i32 = 0;
  if timed_out {
    unsafe {
      libc::kill(pid, libc::SIGKILL);
      libc::waitpid(pid, &mut status, 0);
    }
  } else {
    unsafe {
      libc::waitpid(pid, &mut status, 0);
    }
  }
  let done: Vec<RunOutput> = String::from_utf8_lossy(&buf)
    .lines()
    .filter_map(|l| serde_json::from_str::<RunOutput>(l).ok())
    .collect();
  if timed_out {
    return ChildEnd::Timeout { done };
  }
  let clean = libc::WIFEXITED(status) && libc::WEXITSTATUS(status) == 0;
  if clean && done.len() == job.inputs.len() {
    ChildEnd::Ok(done)
  } else {
    ChildEnd::Died { status, done }
  }
}

pub fn describe_status(status: i32) -> String {
  if libc::WIFSIGNALED(status) {
    format!("signal {}", libc::WTERMSIG(status))
  } else if libc::WIFEXITED(status) {
    format!("exit {}", libc::WEXITSTATUS(status))
  } else {
    format!("status {status}")
  }
}

/// Run inputs with isolation; failures of a batch are narrowed down to the
/// single run that causes them, which is reported as a violation of class
/// `abort` / `hang` (the run's seed is its replay).
pub fn run_batch_robust(job: &Job, per_run_timeout: Duration) -> Vec<RunOutput> {
  // the in-child watchdog fires at per_run_timeout; the parent's limit is a backstop
  let total = per_run_timeout * (job.inputs.len() as u32).max(1) + Duration::from_secs(8);
  match run_forked(job, total) {
    ChildEnd::Ok(v) => v,
    ChildEnd::Died { done, .. } | ChildEnd::Timeout { done } => {
      let mut out = done.clone();
      // re-run the rest one by one
      for inp in job.inputs.iter().skip(done.len()) {
        let single = Job {
          prop: job.prop.clone(),
          tier: job.tier.clone(),
          inputs: vec![inp.clone()],
          keep_lines: job.keep_lines,
          watchdog_s: job.watchdog_s,
        };
        match run_forked(&single, per_run_timeout + Duration::from_secs(8)) {
          ChildEnd::Ok(mut v) => out.append(&mut v),
          // the in-child watchdog or abort handler has reported the run itself
          ChildEnd::Died { mut done, .. } if !done.is_empty() => out.append(&mut done),
          ChildEnd::Died { status, .. } => out.push(synthetic(
            inp,
            Violation::new(
              format!("abort/{}", describe_status(status)),
              "the simulated process died (abort, stack overflow, allocation failure or kill)",
            ),
          )),
          ChildEnd::Timeout { .. } => out.push(synthetic(
            inp,
            Violation::new(
              "hang/wall-clock",
              format!(
                "run did not finish within {:?} of wall-clock time",
                per_run_timeout
              ),
            ),
          )),
        }
      }
      out
    }
  }
}

fn synthetic(inp: &RunInput, v: Violation) -> RunOutput {
  RunOutput {
    seed: inp.seed,
    digest: 0,
    fingerprint: 0,
    nontrivial: false,
    sim_ns: 0,
    steps: 0,
    n_choices: 0,
    violation: Some(v),
    choices: inp.choices.clone(),
    stats: Default::default(),
    lines: None,
  }
}
