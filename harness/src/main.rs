//! dst — deterministic simulation testing of RustDDS (see /verif/DESIGN.md)
mod ctx;
mod e1;
mod e1world;
mod e2;
mod e2rig;
mod iso;
mod meter;
mod props;
mod runner;
mod wire;

use std::os::unix::process::CommandExt;

#[global_allocator]
static GLOBAL: meter::Counting = meter::Counting;

fn arg_val(args: &[String], name: &str) -> Option<String> {
  args
    .iter()
    .position(|a| a == name)
    .and_then(|i| args.get(i + 1).cloned())
}

fn ensure_preload() {
  if iso::detrand_loaded() {
    return;
  }
  let so = "/verif/preload/libdetrand.so";
  if !std::path::Path::new(so).exists() {
    eprintln!("HARNESS-ERROR {so} missing (run MANIFEST.setup_cmd)");
    std::process::exit(2);
  }
  if std::env::var_os("VERIF_REEXEC").is_some() {
    eprintln!("HARNESS-ERROR LD_PRELOAD of {so} had no effect");
    std::process::exit(2);
  }
  let exe = std::env::current_exe().unwrap();
  let args: Vec<String> = std::env::args().skip(1).collect();
  let err = std::process::Command::new(exe)
    .args(args)
    .env("LD_PRELOAD", so)
    .env("VERIF_REEXEC", "1")
    .exec();
  eprintln!("HARNESS-ERROR exec failed: {err}");
  std::process::exit(2);
}

struct StderrLog;
impl log::Log for StderrLog {
  fn enabled(&self, m: &log::Metadata) -> bool {
    m.level() <= log::max_level()
  }
  fn log(&self, r: &log::Record) {
    if self.enabled(r.metadata()) {
      let t = if simcore::is_active() { simcore::now_ns() } else { 0 };
      eprintln!("[{} t={} n{} {}] {}", r.level(), t, simcore::node(), r.target(), r.args());
    }
  }
  fn flush(&self) {}
}
static LOGGER: StderrLog = StderrLog;

fn main() {
  if let Ok(l) = std::env::var("VERIF_LOG") {
    let _ = log::set_logger(&LOGGER);
    log::set_max_level(match l.as_str() {
      "trace" => log::LevelFilter::Trace,
      "debug" => log::LevelFilter::Debug,
      "info" => log::LevelFilter::Info,
      "warn" => log::LevelFilter::Warn,
      _ => log::LevelFilter::Error,
    });
  }
  let args: Vec<String> = std::env::args().collect();
  if args.len() < 2 {
    eprintln!("usage: dst run|worker|recheck|replay|one|list ...");
    std::process::exit(2);
  }
  ensure_preload();
  iso::install_panic_hook();
  let tier = arg_val(&args, "--tier")
    .or_else(|| std::env::var("VERIF_TIER").ok())
    .unwrap_or_else(|| "quick".into());
  let seed: u64 = arg_val(&args, "--seed")
    .or_else(|| std::env::var("VERIF_SEED").ok())
    .and_then(|s| s.parse().ok())
    .unwrap_or(20260925);
  match args[1].as_str() {
    "list" => {
      for p in props::all() {
        println!("{p}");
      }
    }
    "run" => {
      let a = runner::RunArgs {
        prop: args[2].clone(),
        tier,
        base_seed: seed,
        runs: arg_val(&args, "--runs").and_then(|s| s.parse().ok()),
        secs: arg_val(&args, "--secs").and_then(|s| s.parse().ok()),
        jobs: arg_val(&args, "--jobs")
          .and_then(|s| s.parse().ok())
          .unwrap_or_else(|| {
            std::thread::available_parallelism()
              .map(|n| n.get())
              .unwrap_or(8)
          }),
        write_evidence: !args.iter().any(|a| a == "--no-evidence"),
      };
      std::process::exit(runner::run_main(&a));
    }
    "worker" => {
      let g = |n: &str| -> u64 { arg_val(&args, n).and_then(|s| s.parse().ok()).unwrap_or(0) };
      let deadline: f64 = arg_val(&args, "--deadline")
        .and_then(|s| s.parse().ok())
        .unwrap_or(60.0);
      let s = runner::worker_main(
        &args[2],
        &tier,
        seed,
        g("--start"),
        g("--stride").max(1),
        g("--total"),
        deadline,
        g("--check-first"),
      );
      println!("{}", serde_json::to_string(&s).unwrap());
    }
    "recheck" => {
      let n: u64 = arg_val(&args, "--n").and_then(|s| s.parse().ok()).unwrap_or(8);
      let s = runner::recheck_main(&args[2], &tier, seed, n);
      println!("{}", serde_json::to_string(&s).unwrap());
    }
    "replay" => {
      let verbose = args.iter().any(|a| a == "-v");
      std::process::exit(runner::replay_main(&args[2], verbose));
    }
    // one run in this process, trace to stdout: dst one C01 --index 3 | --raw-seed N
    "one" => {
      let prop = &args[2];
      let s = match arg_val(&args, "--raw-seed").and_then(|s| s.parse::<u64>().ok()) {
        Some(r) => r,
        None => {
          let idx: u64 = arg_val(&args, "--index").and_then(|s| s.parse().ok()).unwrap_or(0);
          runner::seed_of(seed, prop, idx)
        }
      };
      let o = iso::exec_one(
        prop,
        &tier,
        &iso::RunInput {
          seed: s,
          choices: None,
        },
        true,
      );
      if !args.iter().any(|a| a == "-q") {
        for l in o.lines.clone().unwrap_or_default() {
          println!("{l}");
        }
      }
      println!(
        "seed={} digest={:#x} fp={:#x} nontrivial={} steps={} decisions={} sim_ms={} stats={:?}",
        o.seed,
        o.digest,
        o.fingerprint,
        o.nontrivial,
        o.steps,
        o.n_choices,
        o.sim_ns / 1_000_000,
        o.stats
      );
      if let Some(v) = &o.violation {
        println!("VIOLATION-IN-RUN {}", runner::violation_brief(v));
        std::process::exit(1);
      }
    }
    other => {
      eprintln!("unknown command {other}");
      std::process::exit(2);
    }
  }
}
