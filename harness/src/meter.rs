//! Cost meters for C06: bytes requested from the allocator and CPU time of the
//! calling thread.  The counting allocator wraps the system allocator for the
//! whole `dst` binary (two relaxed atomic operations per allocation).

use std::{
  alloc::{GlobalAlloc, Layout, System},
  sync::atomic::{AtomicU64, Ordering},
};

pub static BYTES: AtomicU64 = AtomicU64::new(0);
pub static MAX_ONE: AtomicU64 = AtomicU64::new(0);
/// size of the last request that was refused (0 = none)
pub static REFUSED: AtomicU64 = AtomicU64::new(0);
/// Requests above this are refused outright, so that an absurd allocation fails the same way
/// on every machine and in every memory situation (the refusal aborts the process, which the
/// forked run reports with its decision list).
pub const REFUSE_ABOVE: u64 = 2 << 30;

pub struct Counting;

unsafe impl GlobalAlloc for Counting {
  unsafe fn alloc(&self, l: Layout) -> *mut u8 {
    BYTES.fetch_add(l.size() as u64, Ordering::Relaxed);
    MAX_ONE.fetch_max(l.size() as u64, Ordering::Relaxed);
    if l.size() as u64 > REFUSE_ABOVE {
      REFUSED.store(l.size() as u64, Ordering::Relaxed);
      return std::ptr::null_mut();
    }
    System.alloc(l)
  }
  unsafe fn alloc_zeroed(&self, l: Layout) -> *mut u8 {
    BYTES.fetch_add(l.size() as u64, Ordering::Relaxed);
    MAX_ONE.fetch_max(l.size() as u64, Ordering::Relaxed);
    if l.size() as u64 > REFUSE_ABOVE {
      REFUSED.store(l.size() as u64, Ordering::Relaxed);
      return std::ptr::null_mut();
    }
    System.alloc_zeroed(l)
  }
  unsafe fn dealloc(&self, p: *mut u8, l: Layout) {
    System.dealloc(p, l)
  }
  unsafe fn realloc(&self, p: *mut u8, l: Layout, new_size: usize) -> *mut u8 {
    if new_size > l.size() {
      BYTES.fetch_add((new_size - l.size()) as u64, Ordering::Relaxed);
    }
    MAX_ONE.fetch_max(new_size as u64, Ordering::Relaxed);
    if new_size as u64 > REFUSE_ABOVE {
      REFUSED.store(new_size as u64, Ordering::Relaxed);
      return std::ptr::null_mut();
    }
    System.realloc(p, l, new_size)
  }
}

/// (bytes requested so far, largest single request so far)
pub fn alloc_snapshot() -> (u64, u64) {
  (BYTES.load(Ordering::Relaxed), MAX_ONE.load(Ordering::Relaxed))
}

pub fn reset_max_one() {
  MAX_ONE.store(0, Ordering::Relaxed);
}

/// CPU time consumed by the calling thread, in ns (immune to other processes' load)
pub fn thread_cpu_ns() -> u64 {
  let mut ts = libc::timespec { tv_sec: 0, tv_nsec: 0 };
  unsafe {
    libc::clock_gettime(libc::CLOCK_THREAD_CPUTIME_ID, &mut ts);
  }
  ts.tv_sec as u64 * 1_000_000_000 + ts.tv_nsec as u64
}
