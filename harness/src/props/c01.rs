//! C01 — reliable reader hands over each writer's samples in order, once,
//! without holes, unaltered.
use super::{scripted, Spec, E1_REAL, E1_STUB};
use crate::ctx::{Check, Ctx};

pub fn spec() -> Spec {
  Spec {
    id: "C01",
    engine: "E1 rtps-core (scripted writers -> real DPEventLoop/MessageReceiver/Reader/TopicCache)",
    level: "exploration",
    rule: "one case = one seeded run: 1-3 scripted writers x <=40 sequence numbers (plain, fragmented, never-sent), messages delivered in any order / dropped / duplicated from a bag, takes and clock jumps interleaved; non-trivial = at least one sample handed over; distinct = distinct fingerprint of the sequence of (received, partially assembled, unavailable, handed-over) abstract states",
    quick_runs: 400_000,
    quick_secs: 60.0,
    thorough_runs: 12_000_000,
    thorough_secs: 900.0,
    batch: 64,
    per_run_timeout_s: 20.0,
    real: E1_REAL,
    stub: E1_STUB,
    assumptions: &[
      "scripted writers are well behaved: one payload and one source timestamp per sequence number, HEARTBEAT.first/last monotone, GAP only for never-sent or dropped sequence numbers",
      "reader QoS keeps it inside its limits (KeepAll, max_samples 100000), so the no-holes clause is asserted in every run",
      "hand-over is observed at TopicCache::get_changes_in_range_reliable with the read pointer advanced as SimpleDataReader::try_take_one_with does (3 mirrored lines); the real DataReader front end is exercised by engine E2",
    ],
  }
}

pub fn run(tier: &str, ctx: &mut Ctx) -> Check {
  let thorough = tier == "thorough";
  let p = scripted::Params {
    focus: scripted::Focus::C01,
    max_writers: 3,
    max_sn: if thorough { 40 } else { 24 },
    steps_lo: 20,
    steps_hi: if thorough { 400 } else { 160 },
    frag_weight: 3,
    wide_window: false,
  };
  scripted::run(&p, ctx)
}
