//! C02 — a reliable writer/reader pair converges after any finite loss, then
//! goes quiet.  Real writer node + 1-3 real reader nodes (engine E1).

use std::collections::BTreeMap;

use rustdds::verif::{ChangeData, LocalReader, LocalWriter, SimNode, WritePayload};

use super::{Spec, E1_REAL, E1_STUB};
use crate::{
  ctx::{Check, Ctx},
  e1::*,
  e1world::*,
  wire,
};

pub fn spec() -> Spec {
  Spec {
    id: "C02",
    engine: "E1 rtps-core (real Writer node + 1-3 real Reader nodes over the simulated network, all protocol timers on simulated time)",
    level: "exploration",
    rule: "one case = one seeded run: 1-30 writes (plain and fragmented; fragment size knob 16/64/1024; KeepAll/KeepLast writer), phase 1 with a seed-chosen finite fault pattern (random drop 0-50 %, duplication, jitter up to 500 ms, partitions, burst loss of one submessage kind, targeted k-th-datagram drops), phase 2 fault-free; bounded liveness (every sample in the writer's history handed over byte-exact, reader frontier = last+1) within 30 s + 2 s/sample of simulated time, then 5 s of silence; non-trivial = at least one sample written and at least one fault fired; distinct = fingerprint of the per-step (frontier, received) states",
    quick_runs: 300_000,
    quick_secs: 90.0,
    thorough_runs: 2_000_000,
    thorough_secs: 1200.0,
    batch: 32,
    per_run_timeout_s: 30.0,
    real: E1_REAL,
    stub: E1_STUB,
    assumptions: &[
      "late joiners: a TransientLocal writer owes them its whole history, a Volatile one only the samples written after the match (and a GAP for the rest)",
      "liveness bound 30 s + 2 s per sample of simulated time after the last fault: calibrated on the unchanged tree (worst observed recovery is reported as max.recovery_ms), heartbeat period is 1 s, nack response delay 200 ms, repair pace 20 ms per sample",
      "the DPEventLoop-level 5 s pre-emptive ACKNACK and 4 s cache GC ticks are scheduled by the harness with the periods of rtps/constant.rs",
    ],
  }
}

struct RNode {
  ix: usize,
  node: u32,
  reader: LocalReader,
  handed: BTreeMap<i64, Vec<u8>>,
  last_handed: i64,
  matched: bool,
  /// samples with sn <= this were written before the match (a Volatile writer owes them to nobody)
  written_before_match: i64,
}

pub fn run(tier: &str, ctx: &mut Ctx) -> Check {
  let thorough = tier == "thorough";
  let mut w = World::new();
  // ---- topology ----------------------------------------------------------------
  let n_readers = 1 + ctx.ch.draw(3) as usize;
  let keep_all = !ctx.ch.chance(1, 3);
  let depth = 1 + ctx.ch.draw(4) as i32;
  let tl = ctx.ch.flag();
  let wq = qos(true, keep_all, depth, tl, 0);
  let rq = qos(true, true, 0, tl, 100_000);
  const TOPIC: &str = "T";
  const TYPE: &str = "Blob";

  let wnode_id = 1u32;
  let mut wnode = SimNode::new(wnode_id, prefix_for(wnode_id), 0);
  let mut lw: LocalWriter = wnode.add_writer(EID_WRITER_1, TOPIC, &wq);
  let frag = *ctx.ch.pick(&[1024usize, 64, 16]);
  let be = ctx.ch.chance(1, 4);
  wnode.writer_tuning(&lw, Some(frag), Some(be));
  let wix = w.add_node(wnode);
  let wguid = lw.guid_bytes();

  let mut rnodes: Vec<RNode> = vec![];
  for i in 0..n_readers {
    let id = 2 + i as u32;
    let mut n = SimNode::new(id, prefix_for(id), 0);
    let r = n.add_reader(EID_READER_1, TOPIC, TYPE, &rq);
    let ix = w.add_node(n);
    rnodes.push(RNode {
      ix,
      node: id,
      reader: r,
      handed: BTreeMap::new(),
      last_handed: 0,
      matched: false,
      written_before_match: 0,
    });
  }
  // mutual discovery (what Discovery would have delivered); some readers join late
  let mut late: Vec<usize> = vec![];
  for i in 0..rnodes.len() {
    if i > 0 && ctx.ch.chance(1, 3) {
      late.push(i);
    } else {
      do_match(&mut w, wix, &mut rnodes[i], wguid, &wq, &rq, 0);
    }
  }
  w.flush_outbox(ctx)?;

  // ---- fault plan -----------------------------------------------------------------
  let fault_free = ctx.ch.chance(1, 5);
  if !fault_free {
    w.faults_on = true;
    w.net.drop_pct = *ctx.ch.pick(&[0u64, 5, 15, 30, 50]);
    w.net.dup_pct = *ctx.ch.pick(&[0u64, 5, 15]);
    w.net.jitter = *ctx.ch.pick(&[0u64, MS, 50 * MS, 500 * MS]);
    // targeted drops of the k-th datagrams
    let nt = ctx.ch.draw(4);
    for _ in 0..nt {
      let k = 1 + ctx.ch.draw(80);
      w.drop_exact.insert(k);
    }
  }
  let n_ops = ctx.ch.range(3, if thorough { 90 } else { 50 });
  let max_writes: u64 = if thorough { 30 } else { 16 };
  ctx.logf(|| {
    format!(
      "cfg readers={n_readers} keep_all={keep_all} depth={depth} tl={tl} frag={frag} be={be} fault_free={fault_free} drop={} dup={} jitter={}ms targeted={:?} ops={n_ops}",
      w.net.drop_pct,
      w.net.dup_pct,
      w.net.jitter / MS,
      w.drop_exact
    )
  });

  let mut written: BTreeMap<i64, Vec<u8>> = BTreeMap::new();

  // ---- phase 1: workload under faults ---------------------------------------------------
  for _ in 0..n_ops {
    ctx.state(w.total_sent << 16 | w.flights.len() as u64);
    let can_write = (written.len() as u64) < max_writes;
    let weights: [u64; 7] = [
      30,                                   // 0 world steps
      if can_write { 25 } else { 0 },       // 1 write
      10,                                   // 2 let time pass
      10,                                   // 3 take
      if w.faults_on { 6 } else { 0 },      // 4 partition toggle
      if w.faults_on { 4 } else { 0 },      // 5 burst loss of a kind toggle
      if late.is_empty() { 0 } else { 8 },  // 6 a late joiner is matched
    ];
    match ctx.ch.weighted(&weights) {
      0 => {
        let k = 1 + ctx.ch.draw(8);
        let lim = simcore::now_ns() + 2 * SEC;
        for _ in 0..k {
          if !w.step(lim, ctx)? {
            break;
          }
        }
      }
      1 => {
        let big = ctx.ch.chance(1, 3);
        let len = if big {
          // around multiples of the fragment size, every residue mod 4 reachable
          let k = 1 + ctx.ch.draw(4) as usize;
          let r = *ctx.ch.pick(&[0usize, 1, 2, 3, frag - 1]);
          (k * frag + r).saturating_sub(4).max(1)
        } else {
          *ctx.ch.pick(&[8usize, 0, 1, 2, 3, 5, 11])
        };
        let sn_next = lw.next_sn();
        let pl = payload_for(0, sn_next, len);
        let src = Some(0x7100_0000_0000_0000u64 + sn_next as u64);
        match lw.write(
          WritePayload::Data {
            rep_id: [pl[0], pl[1]],
            value: pl[4..].to_vec(),
          },
          src,
          None,
        ) {
          Some(sn) => {
            ctx.logf(|| format!("write sn {sn} len {}", pl.len()));
            written.insert(sn, pl.clone());
            if pl.len() > frag {
              ctx.count("op.write_fragmented");
            } else {
              ctx.count("op.write_plain");
            }
            // the event loop picks the command up now or a little later
            if ctx.ch.chance(3, 4) {
              w.nodes[wix].writer_command(&lw);
              w.flush_outbox(ctx)?;
            }
          }
          None => {
            ctx.count("probe.writer_queue_full");
            w.nodes[wix].writer_command(&lw);
            w.flush_outbox(ctx)?;
          }
        }
      }
      2 => {
        let d = *ctx.ch.pick(&[MS, 50 * MS, 300 * MS, SEC + 100 * MS, 3 * SEC]);
        w.run_for(d, ctx)?;
      }
      3 => {
        let i = ctx.ch.index(rnodes.len());
        take_check(&mut rnodes[i], &written, wguid, ctx)?;
      }
      4 => {
        let i = ctx.ch.index(rnodes.len());
        let a = wnode_id;
        let b = rnodes[i].node;
        let dir = ctx.ch.draw(3);
        let pairs: Vec<(u32, u32)> = match dir {
          0 => vec![(a, b), (b, a)],
          1 => vec![(a, b)],
          _ => vec![(b, a)],
        };
        if pairs.iter().all(|p| w.cut.contains(p)) {
          for p in pairs {
            w.cut.remove(&p);
          }
          ctx.logf(|| format!("heal n{a}<->n{b}"));
          ctx.count("fault.heal");
        } else {
          for p in pairs {
            w.cut.insert(p);
          }
          ctx.logf(|| format!("partition n{a}/n{b} dir {dir}"));
          ctx.count("fault.partition");
        }
      }
      6 => {
        let i = late.remove(ctx.ch.index(late.len()));
        // the writer has processed everything written so far
        w.nodes[wix].writer_command(&lw);
        w.flush_outbox(ctx)?;
        let l0 = w.nodes[wix].writer_view(&lw).map_or(0, |v| v.last_sn);
        do_match(&mut w, wix, &mut rnodes[i], wguid, &wq, &rq, l0);
        w.flush_outbox(ctx)?;
        ctx.logf(|| format!("late joiner n{} matched after sn {l0}", rnodes[i].node));
        ctx.count("op.late_joiner_matched");
      }
      _ => {
        let k = *ctx.ch.pick(&[
          wire::SM_ACKNACK,
          wire::SM_HEARTBEAT,
          wire::SM_NACK_FRAG,
          wire::SM_DATA_FRAG,
          wire::SM_GAP,
        ]);
        if !w.lose_kinds.remove(&k) {
          w.lose_kinds.insert(k);
          ctx.logf(|| format!("burst loss of submessage kind {k:#x} starts"));
          ctx.count("fault.burst_kind_loss");
        } else {
          ctx.logf(|| format!("burst loss of submessage kind {k:#x} ends"));
        }
      }
    }
  }
  // make sure every write reached the writer
  w.nodes[wix].writer_command(&lw);
  w.flush_outbox(ctx)?;
  for i in late.drain(..) {
    let l0 = w.nodes[wix].writer_view(&lw).map_or(0, |v| v.last_sn);
    do_match(&mut w, wix, &mut rnodes[i], wguid, &wq, &rq, l0);
    ctx.count("op.late_joiner_matched");
  }
  w.flush_outbox(ctx)?;

  // ---- phase 2: faults stop --------------------------------------------------------------
  w.faults_on = false;
  w.cut.clear();
  w.lose_kinds.clear();
  w.drop_exact.clear();
  let t_heal = simcore::now_ns();
  ctx.logf(|| "faults stop".to_string());
  let bound = 30 * SEC + 2 * SEC * written.len() as u64;
  // observe when convergence is reached (for the calibration probe), in 250 ms slices
  let mut converged_at: Option<u64> = None;
  let mut t = t_heal;
  while t < t_heal + bound {
    t += 250 * MS;
    w.run_until(t, ctx)?;
    if converged(&w, wix, &lw, &mut rnodes, &written, wguid, !tl, ctx)?.is_none() {
      converged_at = Some(t);
      break;
    }
  }
  match converged_at {
    None => {
      let why = converged(&w, wix, &lw, &mut rnodes, &written, wguid, !tl, ctx)?.unwrap();
      return Err(v(
        "C02/not-converged-after-faults-stopped",
        format!(
          "{} simulated s after the last fault ({} samples written): {why}",
          bound / SEC,
          written.len()
        ),
      ));
    }
    Some(t) => {
      let ms = (t - t_heal) / MS;
      let cur = ctx.stats.get("max.recovery_ms").copied().unwrap_or(0);
      if ms > cur {
        ctx.stats.insert("max.recovery_ms".into(), ms);
      }
    }
  }
  // ---- then quiet ---------------------------------------------------------------------------
  w.run_for(2 * SEC, ctx)?; // let the last acknowledgments and a heartbeat period pass
  w.drain_seen();
  w.run_for(5 * SEC, ctx)?;
  let late = w.drain_seen();
  if let Some(s) = late.first() {
    return Err(v(
      "C02/traffic-after-convergence",
      format!(
        "everything is delivered and acknowledged, yet {} datagram(s) were sent in the following 5 s, first: n{}->n{} {}",
        late.len(),
        s.src,
        s.dst,
        s.subs.iter().map(wire::sub_brief).collect::<Vec<_>>().join(",")
      ),
    ));
  }
  let faults: u64 = ctx
    .stats
    .iter()
    .filter(|(k, _)| k.starts_with("fault."))
    .map(|(_, v)| *v)
    .sum();
  ctx.nontrivial = !written.is_empty() && (faults > 0 || fault_free);
  ctx.add("samples_written", written.len() as u64);
  Ok(())
}

fn take_check(rn: &mut RNode, written: &BTreeMap<i64, Vec<u8>>, wguid: [u8; 16], ctx: &mut Ctx) -> Check {
  for c in rn.reader.take_all() {
    if c.writer != wguid {
      return Err(v("C01/S4-unknown-writer", format!("n{} handed over a sample of an unknown writer", rn.node)));
    }
    ctx.logf(|| format!("take n{} sn {}", rn.node, c.sn));
    if c.sn <= rn.last_handed {
      return Err(v(
        "C01/S1-out-of-order",
        format!("n{}: sn {} handed over after {}", rn.node, c.sn, rn.last_handed),
      ));
    }
    rn.last_handed = c.sn;
    let got = match &c.data {
      ChangeData::Data {
        rep_id,
        rep_opts,
        value,
      } => {
        let mut g = vec![rep_id[0], rep_id[1], rep_opts[0], rep_opts[1]];
        g.extend_from_slice(value);
        g
      }
      other => {
        return Err(v(
          "C01/S3-kind-differs",
          format!("n{}: sn {} handed over as {other:?}", rn.node, c.sn),
        ))
      }
    };
    match written.get(&c.sn) {
      None => {
        return Err(v(
          "C01/S4-never-written",
          format!("n{} handed over sn {} which was never written", rn.node, c.sn),
        ))
      }
      Some(pl) => {
        if !eq_mod_padding(&got, pl) {
          return Err(v(
            "C05/reassembled-bytes-differ",
            format!(
              "n{}: sn {}: handed {} bytes, written {} bytes, first difference at {:?}",
              rn.node,
              c.sn,
              got.len(),
              pl.len(),
              got.iter().zip(pl.iter()).position(|(a, b)| a != b)
            ),
          ));
        }
      }
    }
    if c.source_ticks != Some(0x7100_0000_0000_0000u64 + c.sn as u64) {
      return Err(v(
        "C01/S3-source-timestamp-differs",
        format!("n{}: sn {}: source timestamp {:?}", rn.node, c.sn, c.source_ticks),
      ));
    }
    rn.handed.insert(c.sn, got);
    ctx.state(((rn.node as u64) << 32) | c.sn as u64);
  }
  Ok(())
}

/// None = converged; Some(reason) otherwise.
#[allow(clippy::too_many_arguments)]
fn do_match(
  w: &mut World,
  wix: usize,
  rn: &mut RNode,
  wguid: [u8; 16],
  wq: &rustdds::QosPolicies,
  rq: &rustdds::QosPolicies,
  written_before: i64,
) {
  const TOPIC: &str = "T";
  const TYPE: &str = "Blob";
  let drd = rustdds::verif::discovered_reader(rn.reader.guid_bytes(), TOPIC, TYPE, rq, &[node_addr(rn.node)], &[]);
  w.nodes[wix].remote_reader_discovered(drd);
  let dwd = rustdds::verif::discovered_writer(wguid, TOPIC, TYPE, wq, &[node_addr(1)], &[]);
  w.nodes[rn.ix].remote_writer_discovered(dwd);
  rn.matched = true;
  rn.written_before_match = written_before;
}

#[allow(clippy::too_many_arguments)]
fn converged(
  w: &World,
  wix: usize,
  lw: &LocalWriter,
  rnodes: &mut [RNode],
  written: &BTreeMap<i64, Vec<u8>>,
  wguid: [u8; 16],
  volatile: bool,
  ctx: &mut Ctx,
) -> Result<Option<String>, crate::ctx::Violation> {
  let wv = w.nodes[wix].writer_view(lw).expect("writer view");
  if wv.last_sn != written.len() as i64 {
    return Ok(Some(format!(
      "writer has accepted {} of {} writes",
      wv.last_sn,
      written.len()
    )));
  }
  for rn in rnodes.iter_mut() {
    take_check(rn, written, wguid, ctx)?;
    for sn in &wv.history {
      if volatile && *sn <= rn.written_before_match {
        continue; // a Volatile writer does not owe a late joiner its earlier samples
      }
      if !rn.handed.contains_key(sn) {
        return Ok(Some(format!(
          "reader node n{} has not been handed sn {sn}, which the writer still holds (writer history {:?}, reader proxy {:?})",
          rn.node,
          wv.history,
          w.nodes[rn.ix]
            .reader_view(&rn.reader)
            .map(|r| r.matched_writers.iter().map(|m| (m.ack_base, m.changes.len())).collect::<Vec<_>>())
        )));
      }
    }
    let rv = w.nodes[rn.ix].reader_view(&rn.reader).expect("reader view");
    let ack_base = rv
      .matched_writers
      .iter()
      .find(|m| m.writer == wguid)
      .map(|m| m.ack_base)
      .unwrap_or(0);
    if ack_base != wv.last_sn + 1 {
      return Ok(Some(format!(
        "reader node n{} knows the writer's sequence numbers only up to {} (last written {})",
        rn.node,
        ack_base - 1,
        wv.last_sn
      )));
    }
  }
  Ok(None)
}
