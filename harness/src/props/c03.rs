//! C03 — ACKNACKs never acknowledge or request what they should not.
use super::{scripted, Spec, E1_REAL, E1_STUB};
use crate::ctx::{Check, Ctx};

pub fn spec() -> Spec {
  Spec {
    id: "C03",
    engine: "E1 rtps-core (scripted writers -> real reader; every datagram the reader node emits is captured at the UDPSender seam and decoded by the harness' independent RTPS decoder)",
    level: "exploration",
    rule: "one case = one seeded run of the scripted-writer scenario (heartbeats with any first/last/count, final flag set or not, windows up to 300 sequence numbers, GAPs, fragments, loss/dup/reorder); every ACKNACK/NACKFRAG emitted is checked against a reference model of what was delivered; non-trivial = at least one sample handed over; distinct = distinct fingerprint of the visited (received, partial, unavailable) state sequence",
    quick_runs: 80_000,
    quick_secs: 60.0,
    thorough_runs: 12_000_000,
    thorough_secs: 900.0,
    batch: 64,
    per_run_timeout_s: 20.0,
    real: E1_REAL,
    stub: E1_STUB,
    assumptions: &[
      "reference model follows RTPS 2.5 8.4.12: HEARTBEAT accepted iff its count exceeds the last accepted one; GAP accepted iff gapStart >= 1 and gapList.base >= 1",
      "a partially received sample whose assembly buffer was idle >= 9.5 s when another DATAFRAG arrived may or may not have been garbage collected: nothing is asserted about it until it is handed over (named relaxation, counted by probe acknack_clause_e_skipped_gc_window)",
      "heartbeats are the last submessage of the scripted messages, so each reply is evaluated against the model after the whole message",
    ],
  }
}

pub fn run(tier: &str, ctx: &mut Ctx) -> Check {
  let thorough = tier == "thorough";
  let wide = ctx.ch.chance(1, 3);
  let p = scripted::Params {
    focus: scripted::Focus::C03,
    max_writers: 2,
    max_sn: if wide { 700 } else if thorough { 40 } else { 24 },
    steps_lo: 20,
    steps_hi: if wide { 700 } else if thorough { 400 } else { 160 },
    frag_weight: 3,
    wide_window: wide,
  };
  scripted::run(&p, ctx)
}
