//! C04 — writer keeps what readers still need, bounds the rest, answers every request.
use super::{wvr, Spec, E1_REAL, E1_STUB};
use crate::ctx::{Check, Ctx};

pub fn spec() -> Spec {
  Spec {
    id: "C04",
    engine: "E1 rtps-core (real Writer/RtpsReaderProxy/HistoryBuffer/MessageBuilder vs 0-4 scripted readers)",
    level: "exploration",
    rule: "one case = one seeded run: interleaving of write (plain, fragmented, to_single_reader), command processing, ACKNACKs with any base/bitmap, honest replies to heartbeats, reader match/loss (endpoint or participant), heartbeat ticks, 2-minute cache-cleaning jumps; reader mixes none / best effort / reliable; KeepLast(1-5) / KeepAll; after every step: removal only if acknowledged or forced out, bound after cleaning, requests answered by exact bytes or GAP within budget, heartbeat range exact, single-reader samples never sent elsewhere; non-trivial = at least one write; distinct = fingerprint of (history size, last SN, matched readers) sequence",
    quick_runs: 300_000,
    quick_secs: 90.0,
    thorough_runs: 5_000_000,
    thorough_secs: 1200.0,
    batch: 32,
    per_run_timeout_s: 30.0,
    real: E1_REAL,
    stub: E1_STUB,
    assumptions: &[
      "repair budget per request: 3 s + 150 ms per requested sample + 400 ms per position in the bitmap (nack response delay is 200 ms, repair pace 20 ms per sample, 1 ms per 8 fragments)",
      "limit = History depth for KeepLast(d); KeepAll without ResourceLimits has no limit to exceed (clause b vacuous)",
      "a reader's acknowledgment counts from the moment the writer has processed its ACKNACK",
    ],
  }
}

pub fn run(tier: &str, ctx: &mut Ctx) -> Check {
  let thorough = tier == "thorough";
  wvr::run(
    &wvr::Params {
      focus: wvr::Focus::C04,
      max_ops: if thorough { 120 } else { 60 },
      max_writes: if thorough { 200 } else { 40 },
    },
    ctx,
  )
}
