//! C05 — fragmented samples reassemble to exactly the original bytes, once.
use super::{scripted, Spec, E1_REAL, E1_STUB};
use crate::ctx::{Check, Ctx};

pub fn spec() -> Spec {
  Spec {
    id: "C05",
    engine: "E1 rtps-core (scripted writers -> real Reader/FragmentAssembler; real Writer fragmentation is covered by the C02 scenario)",
    level: "exploration",
    rule: "one case = one seeded run biased towards fragmented samples: payload sizes (n-1)*fs + r with r in {0,1,2,3,fs-1}, fs in {8,16,64,1024}, 2-6 fragments, single- and multi-fragment DATAFRAG submessages, several samples and writers in flight, fragments delivered in any order / dropped / duplicated; non-trivial = at least one sample handed over; distinct = distinct fingerprint of the visited state sequence",
    quick_runs: 400_000,
    quick_secs: 60.0,
    thorough_runs: 12_000_000,
    thorough_secs: 900.0,
    batch: 64,
    per_run_timeout_s: 20.0,
    real: E1_REAL,
    stub: E1_STUB,
    assumptions: &[
      "scripted writers use one fragment size per writer (RTPS 8.4.14.1.1) and one payload per sequence number",
      "a sample counts as 'all fragments arrived' when every fragment number was delivered to the participant at some time before the hand-over (superset knowledge, so a legitimately early fragment never raises an alarm)",
    ],
  }
}

pub fn run(tier: &str, ctx: &mut Ctx) -> Check {
  let thorough = tier == "thorough";
  let p = scripted::Params {
    focus: scripted::Focus::C05,
    max_writers: 3,
    max_sn: if thorough { 30 } else { 16 },
    steps_lo: 20,
    steps_hi: if thorough { 400 } else { 200 },
    frag_weight: 14,
    wide_window: false,
  };
  scripted::run(&p, ctx)
}
