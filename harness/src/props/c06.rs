//! C06 — no datagram can crash, hang or bloat a participant.
//!
//! Engine E1: a real event-loop node with a reliable reader, a best-effort
//! reader and a reliable writer, all in the middle of ordinary traffic with
//! well-behaved scripted peers.  A hostile peer (matched as a writer of both
//! readers and as a reader of the writer: the worst case, its submessages are
//! not filtered out early) injects datagrams that are malformed, truncated,
//! inconsistent or extreme in their numeric fields, at seed-chosen points of
//! the traffic.  Every call into the node is metered (CPU time of the thread,
//! bytes requested from the allocator); a panic or a hang ends the run.

use std::collections::BTreeMap;

use rustdds::verif::{SimNode, WritePayload};

use super::{Spec, E1_REAL, E1_STUB};
use crate::{
  ctx::{Check, Ctx, Violation},
  e1::*,
  meter,
  wire::{self, Eid, FnSet, Param, SnSet, Sub},
};

pub fn spec() -> Spec {
  Spec {
    id: "C06",
    engine: "E1 rtps-core (real DPEventLoop/MessageReceiver/Reader/Writer/FragmentAssembler with well-behaved scripted peers and one hostile peer)",
    level: "exploration",
    rule: "one case = one seeded run: 10-60 steps of {good reliable writer sends its next sample (plain or fragmented) with heartbeat, good best-effort writer sends, local writer writes, take, 100 ms pass with timers} interleaved with hostile datagrams from a matched peer: random bytes, random submessages, DATA / DATAFRAG / HEARTBEAT / GAP / HEARTBEAT_FRAG / ACKNACK / NACKFRAG / INFO_* with sequence numbers, counts, bitmap sizes, fragment numbers and sizes, sample sizes and parameter lengths from {0, 1, -1, current +- k, 2^31, 2^32, 2^62, max, min}, inconsistent combinations (fragment size changing within a sample, fragments beyond the sample size, number sets wider than 256), byte flips, truncation and trailing junk of well-formed messages, up to 40 submessages per datagram. Oracle: no panic (any thread), no hang (wall-clock watchdog), every call into the node costs at most 0.3 s CPU and requests at most 4 MiB + 64 x datagram size from the allocator (largest single request 4 MiB); at the end the good writers' samples were handed over complete, in order and byte-exact, and the local writer still serves an honest reader's request with the written bytes. non-trivial = at least 3 hostile datagrams and one good sample; distinct = fingerprint of the hostile kinds and the outcome",
    quick_runs: 150_000,
    quick_secs: 120.0,
    thorough_runs: 5_000_000,
    thorough_secs: 1500.0,
    batch: 32,
    per_run_timeout_s: 5.0,
    real: E1_REAL,
    stub: E1_STUB,
    assumptions: &[
      "the hostile peer never uses the GUID of a well-behaved peer (a peer that can forge another's identity can legitimately replace its samples; that is DDS Security's subject)",
      "cost bounds per call into the node: 0.3 s CPU (debug build, opt-level 1) and 4 MiB + 64 x datagram bytes requested from the allocator; ordinary 64 KiB traffic stays two orders of magnitude below both",
      "built with overflow checks and debug assertions: an arithmetic overflow on a wire value is a panic",
      "one run in 40 is the discovery variant on engine E2 (props/c06d.rs): hostile PL_CDR payloads on the built-in topics against a whole participant; there, cost is bounded only by the hang watchdog and the 2 GiB allocation refusal",
    ],
  }
}

const TOPIC_R: &str = "R";
const TOPIC_B: &str = "B";
const TOPIC_W: &str = "W";
const TYPE: &str = "X";
const GOOD: u32 = 2;
const HONEST: u32 = 3;
const HOSTILE: u32 = 4;
const EID_HONEST_READER: Eid = [0, 0, 0x40, 0x07];
const EID_HOSTILE_READER: Eid = [0, 0, 0x41, 0x07];
const FRAG: usize = 64;

const CPU_LIMIT_NS: u64 = 300_000_000;
const ALLOC_BASE: u64 = 4 << 20;
const ALLOC_PER_BYTE: u64 = 64;

fn v(class: &str, d: String) -> Violation {
  Violation::new(class, d)
}

struct Meter {
  last_hostile: String,
  last_hostile_len: usize,
  max_cpu_ns: u64,
  max_alloc: u64,
}

impl Meter {
  /// run one call into the node and hold its cost against the bounds
  fn call<R>(&mut self, what: &str, f: impl FnOnce() -> R) -> Result<R, Violation> {
    let (b0, _) = meter::alloc_snapshot();
    meter::reset_max_one();
    let c0 = meter::thread_cpu_ns();
    let r = f();
    let cpu = meter::thread_cpu_ns() - c0;
    let (b1, max_one) = meter::alloc_snapshot();
    let bytes = b1 - b0;
    self.max_cpu_ns = self.max_cpu_ns.max(cpu);
    self.max_alloc = self.max_alloc.max(bytes);
    let limit = ALLOC_BASE + ALLOC_PER_BYTE * self.last_hostile_len as u64;
    if cpu > CPU_LIMIT_NS {
      return Err(v(
        "C06/time-out-of-proportion",
        format!("{what} took {} ms of CPU; last hostile datagram ({} bytes): {}", cpu / 1_000_000, self.last_hostile_len, self.last_hostile),
      ));
    }
    if bytes > limit || max_one > ALLOC_BASE {
      return Err(v(
        "C06/memory-out-of-proportion",
        format!(
          "{what} requested {bytes} bytes from the allocator (largest single request {max_one}); last hostile datagram ({} bytes): {}",
          self.last_hostile_len, self.last_hostile
        ),
      ));
    }
    Ok(r)
  }
}

fn extreme_sn(ctx: &mut Ctx, cur: i64) -> i64 {
  let c = [
    1,
    0,
    -1,
    2,
    cur,
    cur + 1,
    cur + 2,
    cur - 1,
    cur + 255,
    cur + 256,
    cur + 257,
    cur + 1000,
    1 << 31,
    (1 << 31) - 1,
    1 << 32,
    (1 << 32) + 1,
    (1 << 32) - 1,
    1 << 62,
    i64::MAX,
    i64::MAX - 1,
    i64::MAX - 255,
    i64::MIN,
    i64::MIN + 1,
  ];
  *ctx.ch.pick(&c)
}

fn extreme_u32(ctx: &mut Ctx, around: u32) -> u32 {
  let c = [
    1,
    0,
    2,
    around,
    around.wrapping_add(1),
    around.wrapping_sub(1),
    255,
    256,
    257,
    65535,
    65536,
    1 << 20,
    1 << 31,
    (1u32 << 31) - 1,
    u32::MAX,
    u32::MAX - 1,
  ];
  *ctx.ch.pick(&c)
}

fn extreme_u16(ctx: &mut Ctx, around: u16) -> u16 {
  let c = [1, 0, 2, around, around.wrapping_add(1), 4, 7, 8, 63, 64, 65, 1024, 32767, 32768, 65535];
  *ctx.ch.pick(&c)
}

fn rand_bytes(ctx: &mut Ctx, n: usize) -> Vec<u8> {
  (0..n).map(|_| ctx.ch.draw(256) as u8).collect()
}

/// a number-set body whose bitmap length need not agree with numBits
fn raw_snset(e: &mut wire::Enc, base: i64, num_bits: u32, words: usize, fill: u32) {
  e.sn(base);
  e.u32(num_bits);
  for _ in 0..words {
    e.u32(fill);
  }
}

struct GenState {
  /// where the hostile writer's own streams are (per reader), and what the local writer has written
  x_sn: i64,
  w_last: i64,
  /// a fragmented sample of the hostile writer that is under way: (sn, frag_size, sample_size)
  x_frag: Option<(i64, u16, u32)>,
}

/// one hostile datagram as bytes and a short description
fn hostile(ctx: &mut Ctx, g: &mut GenState, local_writer: Eid) -> (Vec<u8>, String) {
  let be = ctx.ch.chance(1, 4);
  let px = prefix_for(HOSTILE);
  let as_writer_of: [(Eid, Eid); 4] = [
    (EID_READER_1, EID_WRITER_1),
    (EID_READER_2, EID_WRITER_2),
    (wire::EID_UNKNOWN, EID_WRITER_1),
    ([0, 0, 0x77, 0x07], [0, 0, 0x78, 0x02]), // nobody's
  ];
  let n_subs = if ctx.ch.chance(1, 8) { 2 + ctx.ch.draw(38) as usize } else { 1 };
  let mut subs: Vec<Sub> = vec![];
  let mut desc: Vec<String> = vec![];
  for _ in 0..n_subs {
    let (reader, writer) = *ctx.ch.pick(&as_writer_of);
    let kind = ctx.ch.weighted(&[4, 6, 5, 5, 3, 4, 3, 4, 4, 2]);
    match kind {
      0 => {
        let sn = extreme_sn(ctx, g.x_sn);
        let n = *ctx.ch.pick(&[0usize, 1, 3, 4, 5, 8, 64, 300]);
        let payload = if ctx.ch.chance(1, 6) { None } else { Some(rand_bytes(ctx, n)) };
        let inline_qos = if ctx.ch.chance(1, 3) {
          Some(vec![Param {
            pid: *ctx.ch.pick(&[wire::PID_KEY_HASH, wire::PID_STATUS_INFO, 0x0000, 0x7fff, 0x8001]),
            value: {
              let n = *ctx.ch.pick(&[0usize, 1, 4, 15, 16, 17, 200]);
              rand_bytes(ctx, n)
            },
          }])
        } else {
          None
        };
        let (has_data, has_key) = *ctx.ch.pick(&[(true, false), (false, true), (true, true), (false, false)]);
        desc.push(format!("DATA sn {sn} payload {:?} D{} K{}", payload.as_ref().map(|p| p.len()), has_data as u8, has_key as u8));
        subs.push(Sub::Data {
          reader,
          writer,
          sn,
          inline_qos,
          has_data,
          has_key,
          payload,
        });
        if sn > 0 && sn < g.x_sn + 300 {
          g.x_sn = g.x_sn.max(sn);
        }
      }
      1 => {
        // fragments: of a new sample, or more of the one under way with something changed
        let (sn, fs, ss) = match g.x_frag {
          Some(f) if ctx.ch.chance(2, 3) => f,
          _ => {
            g.x_sn += 1;
            let fs = *ctx.ch.pick(&[64u16, 8, 1, 1024, 7]);
            let ss = fs as u32 * (2 + ctx.ch.draw(3) as u32) + ctx.ch.draw(4) as u32;
            (g.x_sn, fs, ss)
          }
        };
        g.x_frag = Some((sn, fs, ss));
        let n_frags = (ss + fs.max(1) as u32 - 1) / fs.max(1) as u32;
        let frag_size = if ctx.ch.chance(1, 3) { extreme_u16(ctx, fs) } else { fs };
        let sample_size = if ctx.ch.chance(1, 3) { extreme_u32(ctx, ss) } else { ss };
        let frag_start = if ctx.ch.chance(1, 2) { extreme_u32(ctx, n_frags) } else { 1 + ctx.ch.draw(n_frags.max(1) as u64) as u32 };
        let frags_in_sub = if ctx.ch.chance(1, 3) { extreme_u16(ctx, 1) } else { 1 };
        let plen = *ctx.ch.pick(&[fs as usize, 0, 1, fs as usize + 1, fs as usize * 2, 3]);
        let sn = if ctx.ch.chance(1, 8) { extreme_sn(ctx, sn) } else { sn };
        desc.push(format!(
          "DATAFRAG sn {sn} start {frag_start} n {frags_in_sub} fragsize {frag_size} samplesize {sample_size} payload {plen}"
        ));
        subs.push(Sub::DataFrag {
          reader,
          writer,
          sn,
          frag_start,
          frags_in_sub,
          frag_size,
          sample_size,
          inline_qos: None,
          has_key: ctx.ch.chance(1, 8),
          payload: rand_bytes(ctx, plen),
        });
      }
      2 => {
        let first = extreme_sn(ctx, g.x_sn);
        let last = extreme_sn(ctx, g.x_sn);
        let count = *ctx.ch.pick(&[1i32, 0, -1, i32::MAX, i32::MIN, 1000]);
        desc.push(format!("HEARTBEAT {first}..{last} count {count}"));
        subs.push(Sub::Heartbeat {
          reader,
          writer,
          first,
          last,
          count,
          final_flag: ctx.ch.flag(),
          liveliness: ctx.ch.chance(1, 4),
        });
      }
      3 => {
        let start = extreme_sn(ctx, g.x_sn);
        let base = extreme_sn(ctx, g.x_sn);
        if ctx.ch.chance(1, 2) {
          let nb = *ctx.ch.pick(&[0u32, 1, 31, 32, 33, 255, 256]);
          let members: Vec<i64> = (0..nb as i64).filter(|_| ctx.ch.flag()).map(|i| base.wrapping_add(i)).collect();
          desc.push(format!("GAP start {start} base {base} bits {nb}"));
          subs.push(Sub::Gap {
            reader,
            writer,
            start,
            list: SnSet {
              base,
              num_bits: nb,
              members,
            },
          });
        } else {
          let nb = *ctx.ch.pick(&[257u32, 512, 1 << 16, 1 << 31, u32::MAX, 0, 256]);
          let words = *ctx.ch.pick(&[0usize, 1, 8, 9, 16]);
          let mut e = wire::Enc::new(be);
          e.bytes(&reader);
          e.bytes(&writer);
          e.sn(start);
          raw_snset(&mut e, base, nb, words, if ctx.ch.flag() { u32::MAX } else { 0x8000_0001 });
          desc.push(format!("GAP(raw) start {start} base {base} bits {nb} words {words}"));
          subs.push(Sub::Other {
            id: wire::SM_GAP,
            flags: be as u8 ^ 1,
            body: e.buf,
          });
        }
      }
      4 => {
        let sn = match g.x_frag {
          Some((sn, _, _)) if ctx.ch.flag() => sn,
          _ => extreme_sn(ctx, g.x_sn),
        };
        let last_frag = extreme_u32(ctx, 3);
        desc.push(format!("HEARTBEAT_FRAG sn {sn} last {last_frag}"));
        subs.push(Sub::HeartbeatFrag {
          reader,
          writer,
          sn,
          last_frag,
          count: *ctx.ch.pick(&[1i32, 0, -1, i32::MAX]),
        });
      }
      5 => {
        // towards the local writer: ACKNACK
        let reader = *ctx.ch.pick(&[EID_HOSTILE_READER, EID_HONEST_READER, [0, 0, 0x79, 0x07]]);
        let base = extreme_sn(ctx, g.w_last);
        if ctx.ch.chance(2, 3) {
          let nb = *ctx.ch.pick(&[0u32, 1, 32, 255, 256]);
          let members: Vec<i64> = (0..nb as i64).filter(|_| ctx.ch.chance(2, 3)).map(|i| base.wrapping_add(i)).collect();
          desc.push(format!("ACKNACK base {base} bits {nb}"));
          subs.push(Sub::AckNack {
            reader,
            writer: local_writer,
            state: SnSet {
              base,
              num_bits: nb,
              members,
            },
            count: *ctx.ch.pick(&[1i32, 2, 0, -1, i32::MAX, 77]),
            final_flag: ctx.ch.flag(),
          });
        } else {
          let nb = *ctx.ch.pick(&[257u32, 1 << 16, u32::MAX, 256]);
          let words = *ctx.ch.pick(&[0usize, 1, 8, 9]);
          let mut e = wire::Enc::new(be);
          e.bytes(&reader);
          e.bytes(&local_writer);
          raw_snset(&mut e, base, nb, words, u32::MAX);
          e.i32(5);
          desc.push(format!("ACKNACK(raw) base {base} bits {nb} words {words}"));
          subs.push(Sub::Other {
            id: wire::SM_ACKNACK,
            flags: be as u8 ^ 1,
            body: e.buf,
          });
        }
      }
      6 => {
        // NACKFRAG towards the local writer
        let reader = *ctx.ch.pick(&[EID_HOSTILE_READER, EID_HONEST_READER]);
        let sn = extreme_sn(ctx, g.w_last);
        let base = extreme_u32(ctx, 1);
        let nb = *ctx.ch.pick(&[0u32, 1, 32, 255, 256]);
        let members: Vec<u32> = (0..nb).filter(|_| ctx.ch.chance(2, 3)).map(|i| base.wrapping_add(i)).collect();
        desc.push(format!("NACKFRAG sn {sn} base {base} bits {nb}"));
        subs.push(Sub::NackFrag {
          reader,
          writer: local_writer,
          sn,
          state: FnSet {
            base,
            num_bits: nb,
            members,
          },
          count: *ctx.ch.pick(&[1i32, 0, -1, i32::MAX]),
        });
      }
      7 => {
        let id = *ctx.ch.pick(&[
          wire::SM_DATA,
          wire::SM_DATA_FRAG,
          wire::SM_GAP,
          wire::SM_HEARTBEAT,
          wire::SM_ACKNACK,
          wire::SM_NACK_FRAG,
          wire::SM_HEARTBEAT_FRAG,
          wire::SM_INFO_TS,
          wire::SM_INFO_DST,
          wire::SM_INFO_SRC,
          wire::SM_INFO_REPLY,
          wire::SM_INFO_REPLY_IP4,
          wire::SM_PAD,
          0x30,
          0x31,
          0x32,
          0x80,
          0xff,
          0x00,
        ]);
        let n = *ctx.ch.pick(&[0usize, 1, 4, 8, 12, 20, 24, 28, 32, 60]);
        let body = rand_bytes(ctx, n);
        desc.push(format!("submessage {id:#x} with {n} random bytes"));
        subs.push(Sub::Other {
          id,
          flags: ctx.ch.draw(256) as u8,
          body,
        });
      }
      8 => {
        match ctx.ch.draw(4) {
          0 => {
            desc.push("INFO_TS".into());
            subs.push(Sub::InfoTs {
              ticks: if ctx.ch.flag() { None } else { Some(*ctx.ch.pick(&[0u64, 1, u64::MAX, 1 << 63])) },
            });
          }
          1 => {
            let p = if ctx.ch.flag() { prefix_for(1) } else { [0xee; 12] };
            desc.push("INFO_DST".into());
            subs.push(Sub::InfoDst { prefix: p });
          }
          2 => {
            desc.push("INFO_SRC".into());
            subs.push(Sub::InfoSrc { prefix: [0xdd; 12] });
          }
          _ => {
            // INFO_REPLY: locator lists with impossible counts
            let mut e = wire::Enc::new(be);
            e.u32(*ctx.ch.pick(&[0u32, 1, 2, 1000, u32::MAX]));
            let n = *ctx.ch.pick(&[0usize, 24, 48]);
            e.bytes(&rand_bytes(ctx, n));
            desc.push("INFO_REPLY with a made-up locator count".into());
            subs.push(Sub::Other {
              id: wire::SM_INFO_REPLY,
              flags: (be as u8 ^ 1) | if ctx.ch.flag() { 2 } else { 0 },
              body: e.buf,
            });
          }
        }
      }
      _ => {
        // a parameter list that lies about its lengths, inside a DATA
        let mut e = wire::Enc::new(be);
        e.u16(0); // extra flags
        e.u16(*ctx.ch.pick(&[16u16, 0, 4, 65535, 17]));
        e.bytes(&reader);
        e.bytes(&writer);
        e.sn(g.x_sn + 1);
        e.u16(*ctx.ch.pick(&[wire::PID_KEY_HASH, wire::PID_STATUS_INFO, 0x0005]));
        e.u16(*ctx.ch.pick(&[65535u16, 16, 3, 0, 32768]));
        let n = *ctx.ch.pick(&[0usize, 4, 16, 20]);
        e.bytes(&rand_bytes(ctx, n));
        desc.push("DATA with inline QoS lengths that do not add up".into());
        subs.push(Sub::Other {
          id: wire::SM_DATA,
          flags: (be as u8 ^ 1) | 0x02 | if ctx.ch.flag() { 0x04 } else { 0 },
          body: e.buf,
        });
      }
    }
  }
  let mut bytes = wire::encode_msg(&px, &subs, be);
  let mut d = desc.join("; ");
  if d.len() > 300 {
    d.truncate(300);
  }
  // damage in transit / on purpose
  match ctx.ch.weighted(&[12, 3, 2, 2, 1]) {
    0 => {}
    1 => {
      let k = 1 + ctx.ch.draw(4) as usize;
      for _ in 0..k {
        if bytes.len() > 20 {
          let i = 20 + ctx.ch.draw((bytes.len() - 20) as u64) as usize;
          bytes[i] = ctx.ch.draw(256) as u8;
        }
      }
      d.push_str(&format!(" [{k} bytes overwritten]"));
    }
    2 => {
      let n = ctx.ch.draw(bytes.len() as u64 + 1) as usize;
      bytes.truncate(n);
      d.push_str(&format!(" [truncated to {n}]"));
    }
    3 => {
      let n = 1 + ctx.ch.draw(40) as usize;
      let junk = rand_bytes(ctx, n);
      bytes.extend_from_slice(&junk);
      d.push_str(&format!(" [{n} bytes appended]"));
    }
    _ => {
      let n = ctx.ch.draw(120) as usize;
      bytes = rand_bytes(ctx, n);
      if ctx.ch.flag() && n >= 4 {
        bytes[..4].copy_from_slice(b"RTPS");
      }
      d = format!("{n} random bytes");
    }
  }
  (bytes, d)
}

/// what a scripted reader collects of the local writer's traffic
#[derive(Default)]
struct Collected {
  data: BTreeMap<i64, Vec<u8>>,
  frags: BTreeMap<i64, (u32, u16, BTreeMap<u32, Vec<u8>>)>, // sample size, frag size, fragments
}

impl Collected {
  fn absorb(&mut self, bytes: &[u8], writer: Eid) {
    if let Ok((m, _)) = wire::decode_msg(bytes) {
      for s in m.subs {
        match s {
          Sub::Data {
            writer: w,
            sn,
            payload: Some(p),
            ..
          } if w == writer => {
            self.data.insert(sn, p);
          }
          Sub::DataFrag {
            writer: w,
            sn,
            frag_start,
            frags_in_sub,
            frag_size,
            sample_size,
            payload,
            ..
          } if w == writer => {
            let e = self.frags.entry(sn).or_insert((sample_size, frag_size, BTreeMap::new()));
            for k in 0..frags_in_sub as u32 {
              let from = (k as usize) * frag_size as usize;
              let to = (from + frag_size as usize).min(payload.len());
              if from < payload.len() {
                e.2.insert(frag_start + k, payload[from..to].to_vec());
              }
            }
          }
          _ => {}
        }
      }
    }
  }
  fn sample(&self, sn: i64) -> Option<Vec<u8>> {
    if let Some(p) = self.data.get(&sn) {
      return Some(p.clone());
    }
    let (ss, fs, fr) = self.frags.get(&sn)?;
    let n = (*ss + *fs as u32 - 1) / *fs as u32;
    let mut out = vec![];
    for i in 1..=n {
      out.extend_from_slice(fr.get(&i)?);
    }
    out.truncate(*ss as usize);
    Some(out)
  }
}

pub fn run(_tier: &str, ctx: &mut Ctx) -> Check {
  // one run in 40 attacks the discovery of a whole participant instead (engine E2)
  if ctx.ch.chance(1, 40) {
    ctx.count("op.discovery_variant");
    return super::c06d::run(ctx);
  }
  let mut node = SimNode::new(1, prefix_for(1), 0);
  let rq = qos(true, true, 0, false, 0);
  let bq = qos(false, true, 0, false, 0);
  let wq = qos(true, true, 0, true, 0);
  let mut r1 = node.add_reader(EID_READER_1, TOPIC_R, TYPE, &rq);
  let mut r2 = node.add_reader(EID_READER_2, TOPIC_B, TYPE, &bq);
  let mut lw = node.add_writer(EID_WRITER_1, TOPIC_W, &wq);
  node.writer_tuning(&lw, Some(FRAG), Some(false));
  let lw_eid = wire::eid_of(&lw.guid_bytes());

  // well-behaved peers
  let g_rel = wire::guid(prefix_for(GOOD), EID_WRITER_1);
  let g_be = wire::guid(prefix_for(GOOD), EID_WRITER_2);
  node.remote_writer_discovered(rustdds::verif::discovered_writer(g_rel, TOPIC_R, TYPE, &rq, &[node_addr(GOOD)], &[]));
  node.remote_writer_discovered(rustdds::verif::discovered_writer(g_be, TOPIC_B, TYPE, &bq, &[node_addr(GOOD)], &[]));
  let honest = wire::guid(prefix_for(HONEST), EID_HONEST_READER);
  node.remote_reader_discovered(rustdds::verif::discovered_reader(honest, TOPIC_W, TYPE, &rq, &[node_addr(HONEST)], &[]));
  // the hostile peer is matched everywhere
  let x_rel = wire::guid(prefix_for(HOSTILE), EID_WRITER_1);
  let x_be = wire::guid(prefix_for(HOSTILE), EID_WRITER_2);
  let x_rd = wire::guid(prefix_for(HOSTILE), EID_HOSTILE_READER);
  if ctx.ch.chance(5, 6) {
    node.remote_writer_discovered(rustdds::verif::discovered_writer(x_rel, TOPIC_R, TYPE, &rq, &[node_addr(HOSTILE)], &[]));
    node.remote_writer_discovered(rustdds::verif::discovered_writer(x_be, TOPIC_B, TYPE, &bq, &[node_addr(HOSTILE)], &[]));
    node.remote_reader_discovered(rustdds::verif::discovered_reader(x_rd, TOPIC_W, TYPE, &rq, &[node_addr(HOSTILE)], &[]));
  }
  let _ = simcore::take_outbox();

  let mut m = Meter {
    last_hostile: "none yet".into(),
    last_hostile_len: 0,
    max_cpu_ns: 0,
    max_alloc: 0,
  };
  let mut gs = GenState {
    x_sn: 0,
    w_last: 0,
    x_frag: None,
  };
  let steps = ctx.ch.range(10, 60);
  let pg = prefix_for(GOOD);
  let mut g_rel_sn = 0i64;
  let mut g_be_sn = 0i64;
  let mut g_rel_sent: BTreeMap<i64, Vec<u8>> = BTreeMap::new();
  let mut g_be_sent: BTreeMap<i64, Vec<u8>> = BTreeMap::new();
  let mut written: BTreeMap<i64, Vec<u8>> = BTreeMap::new();
  let mut got_rel: Vec<(i64, Vec<u8>)> = vec![];
  let mut got_be: Vec<(i64, Vec<u8>)> = vec![];
  let mut honest_rx = Collected::default();
  let mut hb_count = 0i32;
  let mut hostile_n = 0u64;
  let mut kinds_fp = simcore::digest::Fnv::new();

  macro_rules! drain_outbox {
    () => {
      for d in simcore::take_outbox() {
        if d.dst == node_addr(HONEST) {
          honest_rx.absorb(&d.bytes, lw_eid);
        }
      }
    };
  }
  macro_rules! take {
    () => {{
      let a = m.call("take (reliable reader)", || r1.take_all())?;
      for c in a {
        if c.writer == g_rel {
          if let rustdds::verif::ChangeData::Data { rep_id, rep_opts, value } = c.data {
            let mut p = vec![rep_id[0], rep_id[1], rep_opts[0], rep_opts[1]];
            p.extend_from_slice(&value);
            got_rel.push((c.sn, p));
          } else {
            got_rel.push((c.sn, vec![]));
          }
        }
      }
      let b = m.call("take (best-effort reader)", || r2.take_all())?;
      for c in b {
        if c.writer == g_be {
          if let rustdds::verif::ChangeData::Data { rep_id, rep_opts, value } = c.data {
            let mut p = vec![rep_id[0], rep_id[1], rep_opts[0], rep_opts[1]];
            p.extend_from_slice(&value);
            got_be.push((c.sn, p));
          } else {
            got_be.push((c.sn, vec![]));
          }
        }
      }
    }};
  }

  for _ in 0..steps {
    match ctx.ch.weighted(&[10, 4, 2, 2, 2, 2]) {
      0 => {
        let (bytes, d) = hostile(ctx, &mut gs, lw_eid);
        ctx.logf(|| format!("hostile ({} bytes): {d}", bytes.len()));
        kinds_fp.str(&d[..d.len().min(12)]);
        m.last_hostile = d;
        m.last_hostile_len = bytes.len();
        hostile_n += 1;
        ctx.count("fault.hostile_datagram");
        m.call("handling the datagram", || node.deliver(&bytes))?;
        m.call("routing ACKNACKs to the writer", || node.pump_acknacks())?;
      }
      1 => {
        // the good reliable writer: next sample, plain or in fragments, then a heartbeat
        g_rel_sn += 1;
        let sn = g_rel_sn;
        let len = *ctx.ch.pick(&[5usize, 60, 64, 130, 200]);
        let p = payload_for(1, sn, len);
        let mut subs = vec![];
        if p.len() > FRAG && ctx.ch.chance(2, 3) {
          let n = (p.len() + FRAG - 1) / FRAG;
          for i in 0..n {
            subs.push(Sub::DataFrag {
              reader: EID_READER_1,
              writer: EID_WRITER_1,
              sn,
              frag_start: i as u32 + 1,
              frags_in_sub: 1,
              frag_size: FRAG as u16,
              sample_size: p.len() as u32,
              inline_qos: None,
              has_key: false,
              payload: p[i * FRAG..((i + 1) * FRAG).min(p.len())].to_vec(),
            });
          }
        } else {
          subs.push(Sub::Data {
            reader: EID_READER_1,
            writer: EID_WRITER_1,
            sn,
            inline_qos: None,
            has_data: true,
            has_key: false,
            payload: Some(p.clone()),
          });
        }
        hb_count += 1;
        subs.push(Sub::Heartbeat {
          reader: EID_READER_1,
          writer: EID_WRITER_1,
          first: 1,
          last: sn,
          count: hb_count,
          final_flag: false,
          liveliness: false,
        });
        g_rel_sent.insert(sn, p);
        ctx.logf(|| format!("good reliable writer sends sn {sn}"));
        for s in subs {
          let bytes = wire::encode_msg(&pg, &[s], false);
          m.call("handling a well-formed datagram", || node.deliver(&bytes))?;
        }
      }
      2 => {
        g_be_sn += 1;
        let sn = g_be_sn;
        let p = payload_for(2, sn, 12);
        g_be_sent.insert(sn, p.clone());
        let bytes = wire::encode_msg(
          &pg,
          &[Sub::Data {
            reader: EID_READER_2,
            writer: EID_WRITER_2,
            sn,
            inline_qos: None,
            has_data: true,
            has_key: false,
            payload: Some(p),
          }],
          false,
        );
        m.call("handling a well-formed datagram", || node.deliver(&bytes))?;
      }
      3 => {
        if written.len() < 8 {
          let sn_next = lw.next_sn();
          let p = payload_for(3, sn_next, *ctx.ch.pick(&[10usize, 150, 64]));
          if let Some(sn) = lw.write(
            WritePayload::Data {
              rep_id: [p[0], p[1]],
              value: p[4..].to_vec(),
            },
            Some(0x7300_0000_0000_0000u64 + sn_next as u64),
            None,
          ) {
            written.insert(sn, p);
            gs.w_last = sn;
          }
          m.call("the writer's command", || node.writer_command(&lw))?;
        }
      }
      4 => take!(),
      _ => {
        simcore::advance_by(100_000_000);
        m.call("timed events", || node.fire_timers())?;
        if ctx.ch.chance(1, 4) {
          m.call("heartbeat tick", || node.heartbeat_tick(&lw, false))?;
        }
        if ctx.ch.chance(1, 8) {
          m.call("pre-emptive acknacks", || node.preemptive_acknacks())?;
        }
      }
    }
    drain_outbox!();
  }

  // ---- the node still does its job for well-behaved peers ------------------------------------------
  for _ in 0..30 {
    simcore::advance_by(100_000_000);
    m.call("timed events", || node.fire_timers())?;
  }
  take!();
  let exp_rel: Vec<(i64, Vec<u8>)> = g_rel_sent.iter().map(|(s, p)| (*s, p.clone())).collect();
  if got_rel.len() != exp_rel.len() || got_rel.iter().zip(exp_rel.iter()).any(|(a, b)| a.0 != b.0 || !eq_mod_padding(&a.1, &b.1)) {
    return Err(v(
      "C06/valid-traffic-disturbed",
      format!(
        "the well-behaved reliable writer sent sn {:?}; handed over: {:?}; last hostile datagram: {}",
        exp_rel.iter().map(|x| x.0).collect::<Vec<_>>(),
        got_rel.iter().map(|x| (x.0, x.1.len())).collect::<Vec<_>>(),
        m.last_hostile
      ),
    ));
  }
  let exp_be: Vec<(i64, Vec<u8>)> = g_be_sent.iter().map(|(s, p)| (*s, p.clone())).collect();
  if got_be.len() != exp_be.len() || got_be.iter().zip(exp_be.iter()).any(|(a, b)| a.0 != b.0 || !eq_mod_padding(&a.1, &b.1)) {
    return Err(v(
      "C06/valid-traffic-disturbed",
      format!(
        "the well-behaved best-effort writer sent sn {:?}; handed over: {:?}; last hostile datagram: {}",
        exp_be.iter().map(|x| x.0).collect::<Vec<_>>(),
        got_be.iter().map(|x| (x.0, x.1.len())).collect::<Vec<_>>(),
        m.last_hostile
      ),
    ));
  }
  // the honest reader asks for everything the writer has
  if !written.is_empty() {
    let last = *written.keys().next_back().unwrap();
    let members: Vec<i64> = (1..=last).collect();
    let ack = wire::encode_msg(
      &prefix_for(HONEST),
      &[Sub::AckNack {
        reader: EID_HONEST_READER,
        writer: lw_eid,
        state: SnSet::from_members(1, &members),
        count: 1,
        final_flag: false,
      }],
      false,
    );
    m.call("handling a well-formed datagram", || node.deliver(&ack))?;
    m.call("routing ACKNACKs to the writer", || node.pump_acknacks())?;
    for _ in 0..60 {
      simcore::advance_by(100_000_000);
      m.call("timed events", || node.fire_timers())?;
      drain_outbox!();
    }
    for (sn, p) in &written {
      match honest_rx.sample(*sn) {
        Some(got) if eq_mod_padding(&got, p) => {}
        other => {
          return Err(v(
            "C06/writer-stopped-serving-honest-reader",
            format!(
              "6 s after the honest reader's request, sample {sn} ({} bytes) arrived as {:?}; last hostile datagram: {}",
              p.len(),
              other.map(|g| g.len()),
              m.last_hostile
            ),
          ))
        }
      }
    }
  }
  ctx.nontrivial = hostile_n >= 3 && (!g_rel_sent.is_empty() || !g_be_sent.is_empty() || !written.is_empty());
  ctx.stats.insert("max.cpu_us_per_call".into(), m.max_cpu_ns / 1000);
  ctx.stats.insert("max.alloc_bytes_per_call".into(), m.max_alloc);
  kinds_fp.u64(got_rel.len() as u64).u64(got_be.len() as u64);
  ctx.state(kinds_fp.get());
  Ok(())
}
