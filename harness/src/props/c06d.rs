//! C06, discovery variant (engine E2): hostile SPDP / SEDP payloads against a
//! whole participant.  The datagrams are well-framed RTPS DATA submessages on
//! the built-in discovery topics whose PL_CDR parameter lists are damaged:
//! lying parameter and string lengths, truncation, overwritten bytes, unknown
//! and duplicated parameters, missing sentinel.  They are processed by the
//! real Discovery thread.  A well-behaved scripted participant announces
//! itself and a writer in between; it must still be discovered and matched.

use std::net::{Ipv4Addr, SocketAddr, SocketAddrV4};

use rustdds::{
  policy::History,
  verif::pl::{self, Lease},
  with_key, DataReaderStatus, StatusEvented, TopicKind,
};

use crate::{
  ctx::{Check, Ctx, Violation},
  e2::{self, MS},
  e2rig::*,
  wire::{self, Sub},
};

const ANODE: u32 = 1;
const SPDP_W: wire::Eid = [0x00, 0x01, 0x00, 0xc2];
const SPDP_R: wire::Eid = [0x00, 0x01, 0x00, 0xc7];
const PUB_W: wire::Eid = [0x00, 0x00, 0x03, 0xc2];
const PUB_R: wire::Eid = [0x00, 0x00, 0x03, 0xc7];
const SUB_W: wire::Eid = [0x00, 0x00, 0x04, 0xc2];
const SUB_R: wire::Eid = [0x00, 0x00, 0x04, 0xc7];
const TOPIC_W: wire::Eid = [0x00, 0x00, 0x02, 0xc2];
const TOPIC_R: wire::Eid = [0x00, 0x00, 0x02, 0xc7];
const PMSG_W: wire::Eid = [0x00, 0x02, 0x00, 0xc2];
const PMSG_R: wire::Eid = [0x00, 0x02, 0x00, 0xc7];

fn v(class: &str, d: String) -> Violation {
  Violation::new(class, d)
}

fn ch<R>(f: impl FnOnce(&mut simcore::choice::Chooser) -> R) -> R {
  e2::with(|st| f(&mut st.ctx.ch))
}

fn addr(node: u32, port: u16) -> SocketAddr {
  SocketAddr::V4(SocketAddrV4::new(simcore::node_ip(node), port))
}

fn mc() -> SocketAddr {
  SocketAddr::V4(SocketAddrV4::new(Ipv4Addr::new(239, 255, 0, 1), 7400))
}

pub fn run(ctx: &mut Ctx) -> Check {
  e2::enter(ctx);
  let r = body();
  e2::leave(ctx);
  r
}

/// offsets of the parameters of a PL_CDR payload (after the 4-byte header): (offset of pid, length)
fn params(p: &[u8], be: bool) -> Vec<(usize, usize)> {
  let mut out = vec![];
  let mut i = 4;
  while i + 4 <= p.len() {
    let rd = |a: u8, b: u8| if be { u16::from_be_bytes([a, b]) } else { u16::from_le_bytes([a, b]) };
    let pid = rd(p[i], p[i + 1]);
    let len = rd(p[i + 2], p[i + 3]) as usize;
    if pid == 0x0001 {
      break;
    }
    if i + 4 + len > p.len() {
      break;
    }
    out.push((i, len));
    i += 4 + len;
  }
  out
}

fn put16(p: &mut [u8], at: usize, x: u16, be: bool) {
  let b = if be { x.to_be_bytes() } else { x.to_le_bytes() };
  p[at] = b[0];
  p[at + 1] = b[1];
}

fn put32(p: &mut [u8], at: usize, x: u32, be: bool) {
  let b = if be { x.to_be_bytes() } else { x.to_le_bytes() };
  p[at..at + 4].copy_from_slice(&b);
}

/// damage a valid PL_CDR payload
fn damage(mut p: Vec<u8>, be: bool) -> (Vec<u8>, String) {
  let ps = params(&p, be);
  let kind = ch(|c| c.weighted(&[3, 3, 3, 2, 2, 2, 2, 1]));
  let d = match kind {
    0 if !ps.is_empty() => {
      // a parameter lies about its length
      let (at, len) = ps[ch(|c| c.index(ps.len()))];
      let lie = ch(|c| *c.pick(&[0u16, 1, 2, 3, 0xffff, 0x7fff, 0x8000]));
      let lie = if lie == 0 && ch(|c| c.flag()) { (len as u16).wrapping_add(4) } else { lie };
      put16(&mut p, at + 2, lie, be);
      format!("parameter at {at} claims length {lie} (was {len})")
    }
    1 if !ps.is_empty() => {
      // a length or count inside a value is absurd (strings, locator lists, sequences)
      let (at, len) = ps[ch(|c| c.index(ps.len()))];
      if len >= 4 && at + 8 <= p.len() {
        let x = ch(|c| *c.pick(&[u32::MAX, 0x7fff_ffff, 0x8000_0000, 0, 1 << 16, 1 << 24]));
        put32(&mut p, at + 4, x, be);
        format!("first word of the value at {at} set to {x:#x}")
      } else {
        "nothing".into()
      }
    }
    2 => {
      let k = 1 + ch(|c| c.draw(6)) as usize;
      for _ in 0..k {
        if p.len() > 4 {
          let i = 4 + ch(|c| c.draw((p.len() - 4) as u64)) as usize;
          p[i] = ch(|c| c.draw(256)) as u8;
        }
      }
      format!("{k} bytes overwritten")
    }
    3 => {
      let n = ch(|c| c.draw(p.len() as u64 + 1)) as usize;
      p.truncate(n);
      format!("truncated to {n}")
    }
    4 => {
      // unknown / vendor-specific parameters with random content in front
      let mut q = p[..4].to_vec();
      let k = 1 + ch(|c| c.draw(3));
      for _ in 0..k {
        let pid = ch(|c| *c.pick(&[0x8001u16, 0xbfff, 0x4001, 0x3fff, 0x0000, 0x7fff]));
        let n = ch(|c| *c.pick(&[0usize, 4, 8, 32, 400]));
        let mut e = wire::Enc::new(be);
        e.u16(pid);
        e.u16(n as u16);
        for _ in 0..n {
          e.u8(ch(|c| c.draw(256)) as u8);
        }
        q.extend_from_slice(&e.buf);
      }
      q.extend_from_slice(&p[4..]);
      p = q;
      format!("{k} unknown parameters in front")
    }
    5 if !ps.is_empty() => {
      // a parameter twice, the second copy with other content
      let (at, len) = ps[ch(|c| c.index(ps.len()))];
      let end = (at + 4 + len).min(p.len());
      let mut copy = p[at..end].to_vec();
      for b in copy.iter_mut().skip(4) {
        if ch(|c| c.chance(1, 3)) {
          *b = ch(|c| c.draw(256)) as u8;
        }
      }
      let tail = p.split_off(end);
      p.extend_from_slice(&copy);
      p.extend_from_slice(&tail);
      format!("parameter at {at} duplicated with changes")
    }
    6 => {
      // no sentinel
      if p.len() >= 8 {
        let n = p.len() - 4;
        p.truncate(n);
      }
      "sentinel cut off".into()
    }
    _ => {
      // representation header says something else
      if p.len() >= 4 {
        p[0] = ch(|c| c.draw(256)) as u8;
        p[1] = ch(|c| c.draw(256)) as u8;
      }
      "representation identifier changed".into()
    }
  };
  (p, d)
}

fn body() -> Check {
  let q = qos(true, History::KeepAll, false);
  let dpa = new_participant(ANODE)?;
  simcore::set_node(ANODE);
  let topic = leak(
    dpa
      .create_topic("T".into(), "Msg".into(), &q, TopicKind::WithKey)
      .map_err(|e| herr("topic", e))?,
  );
  let sub = leak(dpa.create_subscriber(&q).map_err(|e| herr("subscriber", e))?);
  let rd: Leak<with_key::DataReader<Msg>> = leak(sub.create_datareader_cdr(&topic, Some(q.clone())).map_err(|e| herr("reader", e))?);
  e2::with(|st| {
    st.scripted.insert(3);
    st.scripted.insert(4);
  });
  for _ in 0..10 {
    e2::run_for(5 * MS)?;
    while dpa.status_listener().try_recv_status().is_some() {}
  }
  // X: the hostile participant (it is known to A from an honest first announcement, so that its
  // SEDP traffic is looked at); G: the well-behaved one
  let px = [0x01, 0x12, 0x66, 0x66, 0x66, 0x66, 0x10, 0x20, 0x30, 0x40, 0x50, 0x66];
  let pg = [0x01, 0x12, 0x77, 0x77, 0x77, 0x77, 0x10, 0x20, 0x30, 0x40, 0x50, 0x77];
  let spdp = |prefix: [u8; 12], node: u32, be: bool| {
    pl::spdp_payload(prefix, Lease::Millis(60_000), &[addr(node, 7410)], &[mc()], &[addr(node, 7411)], &[], be)
  };
  let send_data = |prefix: [u8; 12], node: u32, w: wire::Eid, r: wire::Eid, sn: i64, payload: Vec<u8>, key: bool, be: bool, dst: SocketAddr| {
    let mut subs = vec![Sub::Data {
      reader: r,
      writer: w,
      sn,
      inline_qos: if key { Some(vec![status_info(true, true)]) } else { None },
      has_data: !key,
      has_key: key,
      payload: Some(payload),
    }];
    if w != SPDP_W {
      subs.push(Sub::Heartbeat {
        reader: r,
        writer: w,
        first: sn,
        last: sn,
        count: sn as i32,
        final_flag: true,
        liveliness: false,
      });
    }
    e2::scripted_send(node, dst, wire::encode_msg(&prefix, &subs, be), 100_000);
  };
  let mut x_spdp_sn = 1i64;
  send_data(px, 3, SPDP_W, SPDP_R, x_spdp_sn, spdp(px, 3, false), false, false, mc());
  e2::run_for(20 * MS)?;

  let steps = 4 + ch(|c| c.draw(20));
  let mut x_sn = [0i64; 4]; // pub, sub, topic, participant message
  let mut hostile = 0u64;
  let mut g_announced = false;
  let mut good_matched = false;
  let gw = wire::guid(pg, [0, 0, 1, 0x02]);
  let mut fp = simcore::digest::Fnv::new();
  for step in 0..steps {
    if step == steps / 2 && !g_announced {
      // the well-behaved participant appears in the middle of it all
      send_data(pg, 4, SPDP_W, SPDP_R, 1, spdp(pg, 4, true), false, true, mc());
      e2::run_for(20 * MS)?;
      let dw = rustdds::verif::discovered_writer(gw, "T", "Msg", &q, &[addr(4, 7411)], &[]);
      send_data(pg, 4, PUB_W, PUB_R, 1, pl::publication_payload(&dw, true), false, true, addr(ANODE, 7410));
      g_announced = true;
      e2::log("the well-behaved participant announces itself and a writer");
      e2::run_for(20 * MS)?;
      continue;
    }
    let be = ch(|c| c.flag());
    let which = ch(|c| c.weighted(&[4, 4, 4, 2, 2, 1]));
    let xw = wire::guid(px, [0, 0, 1, 0x02]);
    let xr = wire::guid(px, [0, 0, 2, 0x07]);
    let (valid, w, r, slot, what): (Vec<u8>, wire::Eid, wire::Eid, Option<usize>, &str) = match which {
      0 => (spdp(px, 3, be), SPDP_W, SPDP_R, None, "SPDP announcement"),
      1 => {
        let d = rustdds::verif::discovered_writer(xw, "T", "Msg", &q, &[addr(3, 7411)], &[]);
        (pl::publication_payload(&d, be), PUB_W, PUB_R, Some(0), "SEDP publication")
      }
      2 => {
        let d = rustdds::verif::discovered_reader(xr, "T", "Msg", &q, &[addr(3, 7411)], &[]);
        (pl::subscription_payload(&d, be), SUB_W, SUB_R, Some(1), "SEDP subscription")
      }
      3 => (pl::endpoint_key_payload(xw, be), PUB_W, PUB_R, Some(0), "SEDP publication dispose"),
      4 => {
        // a topic announcement is a subscription-like parameter list with name and type; reuse one
        let d = rustdds::verif::discovered_reader(xr, "T", "Msg", &q, &[], &[]);
        (pl::subscription_payload(&d, be), TOPIC_W, TOPIC_R, Some(2), "SEDP topic")
      }
      _ => {
        let n = ch(|c| *c.pick(&[0usize, 4, 24, 28, 100]));
        let mut p = vec![0x00, if be { 0x00 } else { 0x01 }, 0x00, 0x00];
        for _ in 0..n {
          p.push(ch(|c| c.draw(256)) as u8);
        }
        (p, PMSG_W, PMSG_R, Some(3), "participant message")
      }
    };
    let key = which == 3;
    let (bytes, d) = if ch(|c| c.chance(1, 6)) { (valid, "undamaged".to_string()) } else { damage(valid, be) };
    let sn = match slot {
      None => {
        x_spdp_sn += 1;
        x_spdp_sn
      }
      Some(s) => {
        x_sn[s] += 1;
        x_sn[s]
      }
    };
    e2::log(&format!("hostile {what} sn {sn}: {d} ({} bytes)", bytes.len()));
    fp.str(what).str(&d[..d.len().min(10)]);
    hostile += 1;
    e2::count("fault.hostile_discovery_datagram");
    let dst = if w == SPDP_W && ch(|c| c.flag()) { mc() } else { addr(ANODE, 7410) };
    send_data(px, 3, w, r, sn, bytes, key, be, dst);
    e2::run_for(ch(|c| *c.pick(&[MS, 10 * MS, 50 * MS])))?;
    let _ = e2::drain_scripted_inbox();
    e2::check()?;
    while let Some(ev) = dpa.status_listener().try_recv_status() {
      if let rustdds::DomainParticipantStatusEvent::RemoteWriterMatched { remote_writer, .. } = ev {
        if remote_writer.to_bytes() == gw {
          good_matched = true;
        }
      }
    }
  }
  e2::run_for(500 * MS)?;
  e2::check()?;
  while let Some(ev) = dpa.status_listener().try_recv_status() {
    if let rustdds::DomainParticipantStatusEvent::RemoteWriterMatched { remote_writer, .. } = ev {
      if remote_writer.to_bytes() == gw {
        good_matched = true;
      }
    }
  }
  // the well-behaved participant's writer is matched by A's reader
  if g_announced && !good_matched {
    let mut matched = false;
    while let Some(st) = rd.try_recv_status() {
      if let DataReaderStatus::SubscriptionMatched { writer, current, .. } = st {
        if writer.to_bytes() == gw && current.count_change() > 0 {
          matched = true;
        }
      }
    }
    if !matched {
      return Err(v(
        "C06/valid-discovery-disturbed",
        "the well-behaved participant announced itself and a writer on the reader's topic in the middle of the hostile discovery traffic; 0.5 s after the end the reader is not matched with it".to_string(),
      ));
    }
  }
  e2::with(|st| {
    st.ctx.nontrivial = hostile >= 3;
    fp.u64(hostile);
    st.ctx.state(fp.get());
  });
  Ok(())
}

