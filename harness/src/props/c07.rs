//! C07 — participants find each other and deliver, whatever the creation
//! order.  Engine E2, public API only: 2-3 real DomainParticipants on one
//! simulated network with loss, duplication, jitter, partitions and stalls.

use std::collections::{BTreeMap, BTreeSet};

use rustdds::{
  policy::History,
  with_key::{self, Sample},
  DataReaderStatus, DataWriterStatus, DomainParticipant, Publisher, RTPSEntity, ReadCondition, StatusEvented,
  Subscriber, Topic, TopicKind,
};

use super::{
  c09::{E2_REAL, E2_STUB},
  Spec,
};
use crate::{
  ctx::{Check, Ctx, Violation},
  e2::{self, MS, SEC},
  e2rig::*,
  wire::Guid,
};

pub fn spec() -> Spec {
  Spec {
    id: "C07",
    engine: "E2 participant (2-3 whole DomainParticipants: real SPDP/SEDP discovery, real event loops, public API only)",
    level: "exploration",
    rule: "one case = one seeded run: a random interleaving of {create participant, create writer/reader (TransientLocal or Volatile, reliable KeepAll, with_key), write value (8 B .. 3 KiB, every residue mod 4 around the 1024 B fragment size), dispose, take, delete reader/writer, drop participant, let time pass} with network faults (drop up to 30 %, duplication, jitter, partition/heal, stalled participant); then faults stop and within 90 simulated s every compatible pair must be matched on both sides, streams complete/in order/unaltered (TransientLocal late joiner: whole history; otherwise a hole-free suffix covering everything written after the match), incompatible pairs never matched, deletions seen as unmatch; non-trivial = at least one matched pair with at least one sample delivered; distinct = fingerprint of the operation sequence and outcome",
    quick_runs: 3_000,
    quick_secs: 150.0,
    thorough_runs: 150_000,
    thorough_secs: 1800.0,
    batch: 1,
    per_run_timeout_s: 60.0,
    real: E2_REAL,
    stub: E2_STUB,
    assumptions: &[
      "security disabled (feature off) in this check; the fragment size is the shipped 1024 bytes",
      "liveness bound: 90 simulated seconds after the last fault / creation (SPDP period 2-5 s, heartbeat period 1 s, lease 60 s is not relied on because deletions are announced)",
      "a writer's 'retained history' is everything it wrote (KeepAll, fewer than 32 samples per writer, runs shorter than the 2-minute cleaning period)",
    ],
  }
}

#[derive(Clone, Debug, PartialEq, Eq)]
enum Item {
  Value { k: u32, v: Vec<u8> },
  Dispose { k: u32 },
}

struct Part {
  node: u32,
  /// when the participant was dropped (simulated time)
  dropped_at: Option<u64>,
  created_at: u64,
  dp: Option<Leak<DomainParticipant>>,
  publisher: Option<Leak<Publisher>>,
  subscriber: Option<Leak<Subscriber>>,
  topic: Option<Leak<Topic>>,
}

struct W {
  p: usize,
  dw: Option<Leak<with_key::DataWriter<Msg>>>,
  guid: Guid,
  tl: bool,
  written: Vec<Item>,
  /// simulated time of each write call
  written_at: Vec<u64>,
  matched: BTreeSet<Guid>,
  ever_matched: BTreeSet<Guid>,
  /// number of items written when the pair was first seen matched on both sides
  both_matched_at: BTreeMap<Guid, usize>,
  created_at_step: u64,
  /// when it was deleted (simulated time)
  deleted_at: Option<u64>,
  /// readers that had been deleted, and the deletion certainly propagated, before this writer was created
  gone_before: BTreeSet<Guid>,
  /// readers for which an unmatch was reported at some time (lease expiry under a long stall or partition)
  unmatched_ever: BTreeSet<Guid>,
  last_current_count: Option<i32>,
}

struct R {
  p: usize,
  dr: Option<Leak<with_key::DataReader<Msg>>>,
  guid: Guid,
  tl: bool,
  got: BTreeMap<Guid, Vec<Item>>,
  matched: BTreeSet<Guid>,
  ever_matched: BTreeSet<Guid>,
  unmatched_ever: BTreeSet<Guid>,
  /// for each writer: the items that were certainly history when this reader was created
  /// (written and sent at least 1 s earlier by a participant that was not stalled, and no
  /// datagram lost or duplicated since, so that nothing of them was still in flight)
  old_at_creation: BTreeMap<Guid, BTreeSet<usize>>,
  /// for each writer: how many write calls had been made when this reader was created
  len_at_creation: BTreeMap<Guid, usize>,
  deleted_at: Option<u64>,
  /// writers that had been deleted, and the deletion certainly propagated, before this reader was created
  gone_before: BTreeSet<Guid>,
}

fn v(class: &str, d: String) -> Violation {
  Violation::new(class, d)
}

fn ch<R2>(f: impl FnOnce(&mut simcore::choice::Chooser) -> R2) -> R2 {
  e2::with(|st| f(&mut st.ctx.ch))
}

pub fn run(tier: &str, ctx: &mut Ctx) -> Check {
  e2::enter(ctx);
  let r = body(tier == "thorough");
  e2::leave(ctx);
  r
}

struct S {
  parts: Vec<Part>,
  ws: Vec<W>,
  rs: Vec<R>,
  step: u64,
  ops: String,
  stalled_since: BTreeMap<u32, u64>,
  /// latest time at which some participant was (still) stalled
  last_stall_seen: u64,
  cut_since: BTreeMap<(u32, u32), u64>,
  /// (writer, reader) pairs for which a loss of liveliness was possible (or an unmatch was seen)
  relaxed: BTreeSet<(Guid, Guid)>,
  /// (observer endpoint, lost endpoint): unmatch / lost-endpoint events seen
  unmatch_seen: BTreeSet<(Guid, Guid)>,
  /// (deleted endpoint, peer in another participant that had received from / been matched with it, kind)
  deletions: Vec<(Guid, Guid, &'static str)>,
}

impl S {
  /// endpoints (writers if `writers`, else readers) whose deletion has certainly reached everybody:
  /// deleted at least 3 s ago, no datagram lost or duplicated and nobody stalled since
  fn settled_deleted(&mut self, writers: bool, observer: usize) -> BTreeSet<Guid> {
    let now = simcore::now_ns();
    if !self.stalled_since.is_empty() {
      self.last_stall_seen = now;
    }
    let (last_fault, any_fault, any_cut) = e2::with(|st| {
      (
        st.last_fault_at,
        st.ctx.stats.keys().any(|k| k == "fault.drop" || k == "fault.duplicate" || k == "fault.partition_drop"),
        !st.cut.is_empty(),
      )
    });
    let lss = self.last_stall_seen;
    // a deletion is announced (and repaired) by its participant; a participant that is dropped
    // within 3 s may take the news with it, and then the others learn it when its lease (10 s,
    // checked every 2 s) runs out
    let dropped: Vec<Option<u64>> = self.parts.iter().map(|p| p.dropped_at).collect();
    let ok = |t: Option<u64>, p: usize| match t {
      Some(t) => {
        let known_by = match dropped[p] {
          Some(d) if d < t + 3 * SEC => d + 20 * SEC,
          _ => t + 3 * SEC,
        };
        // the observing participant was up to date when the deletion happened (a participant that
        // joins later is sent the announcement and then the deletion, and matches for a moment)
        let oc = self.parts[observer].created_at;
        let observer_current = oc + 5 * SEC <= t && (!any_fault || last_fault < oc) && (lss == 0 || lss < oc);
        observer_current && !any_cut && known_by <= now
      }
      None => false,
    };
    if writers {
      self.ws.iter().filter(|w| ok(w.deleted_at, w.p)).map(|w| w.guid).collect()
    } else {
      self.rs.iter().filter(|r| ok(r.deleted_at, r.p)).map(|r| r.guid).collect()
    }
  }

  fn drain_status(&mut self) -> Check {
    for w in self.ws.iter_mut() {
      if let Some(dw) = w.dw.as_ref() {
        while let Some(st) = dw.try_recv_status() {
          if let DataWriterStatus::PublicationMatched { current, reader, .. } = st {
            let g = reader.to_bytes();
            if current.count_change() > 0 {
              w.matched.insert(g);
              w.ever_matched.insert(g);
              if w.gone_before.contains(&g) {
                return Err(v(
                  "C07/matched-with-endpoint-deleted-long-before",
                  format!(
                    "writer {:02x}{:02x} reports a match with reader {:02x}{:02x}, which had been deleted more than 3 s (no loss, no stall) before the writer was created",
                    w.guid[11], w.guid[14], g[11], g[14]
                  ),
                ));
              }
            } else if current.count_change() < 0 {
              w.matched.remove(&g);
            }
            e2::log(&format!(
              "status writer {:02x}{:02x}: PublicationMatched reader {:02x}{:02x} change {} current {}",
              w.guid[11],
              w.guid[14],
              g[11],
              g[14],
              current.count_change(),
              current.count()
            ));
            if current.count_change() < 0 {
              w.unmatched_ever.insert(g);
              w.both_matched_at.remove(&g);
              self.unmatch_seen.insert((w.guid, g));
              self.relaxed.insert((w.guid, g));
            }
            w.last_current_count = Some(current.count());
          }
        }
      }
    }
    for r in self.rs.iter_mut() {
      if let Some(dr) = r.dr.as_ref() {
        while let Some(st) = dr.try_recv_status() {
          if let DataReaderStatus::SubscriptionMatched { current, writer, .. } = st {
            let g = writer.to_bytes();
            if current.count_change() > 0 {
              r.matched.insert(g);
              r.ever_matched.insert(g);
              if r.gone_before.contains(&g) {
                return Err(v(
                  "C07/matched-with-endpoint-deleted-long-before",
                  format!(
                    "reader {:02x}{:02x} reports a match with writer {:02x}{:02x}, which had been deleted more than 3 s (no loss, no stall) before the reader was created",
                    r.guid[11], r.guid[14], g[11], g[14]
                  ),
                ));
              }
            } else if current.count_change() < 0 {
              r.matched.remove(&g);
              r.unmatched_ever.insert(g);
              self.unmatch_seen.insert((r.guid, g));
              self.relaxed.insert((g, r.guid));
            }
            e2::log(&format!(
              "status reader {:02x}{:02x}: SubscriptionMatched writer {:02x}{:02x} change {} current {}",
              r.guid[11],
              r.guid[14],
              g[11],
              g[14],
              current.count_change(),
              current.count()
            ));
          }
        }
      }
    }
    // participant-level events: lost endpoints as seen by each participant
    for (pi, part) in self.parts.iter().enumerate() {
      if let Some(dp) = part.dp.as_ref() {
        while let Some(ev) = dp.status_listener().try_recv_status() {
          let lost: Option<Guid> = match ev {
            rustdds::DomainParticipantStatusEvent::ReaderLost { guid, .. } => Some(guid.to_bytes()),
            rustdds::DomainParticipantStatusEvent::WriterLost { guid, .. } => Some(guid.to_bytes()),
            _ => None,
          };
          if let Some(g) = lost {
            e2::log(&format!("status participant {pi}: endpoint {:02x}{:02x} (kind {:02x}) lost", g[11], g[14], g[15]));
            for w in self.ws.iter().filter(|w| w.p == pi) {
              self.unmatch_seen.insert((w.guid, g));
            }
            for r in self.rs.iter().filter(|r| r.p == pi) {
              self.unmatch_seen.insert((r.guid, g));
            }
          }
        }
      }
    }
    // a pair whose participants have not heard each other's announcement for
    // more than 5 s (plus a stall of up to 4 s: the lease is 10 s) may have lost
    // liveliness: a Volatile stream may then legitimately have a hole
    for w in self.ws.iter() {
      for r in self.rs.iter() {
        let (a, b) = (self.parts[w.p].node, self.parts[r.p].node);
        if a != b && a != 0 && b != 0 && (e2::spdp_gap(a, b) > 5 * SEC || e2::spdp_gap(b, a) > 5 * SEC) {
          self.relaxed.insert((w.guid, r.guid));
        }
      }
    }
    // first moment both sides of a pair are seen matched (again, after an unmatch)
    for w in self.ws.iter_mut() {
      for r in self.rs.iter() {
        if !(w.matched.contains(&r.guid) && r.matched.contains(&w.guid)) && r.unmatched_ever.contains(&w.guid) {
          w.both_matched_at.remove(&r.guid);
        }
        if w.matched.contains(&r.guid) && r.matched.contains(&w.guid) && !w.both_matched_at.contains_key(&r.guid) {
          w.both_matched_at.insert(r.guid, w.written.len());
        }
      }
    }
    Ok(())
  }

  /// let simulated time pass in 50 ms slices, draining the (small) status queues in between
  fn pass_time(&mut self, d: u64) -> Check {
    let end = simcore::now_ns() + d;
    while simcore::now_ns() < end {
      let slice = (end - simcore::now_ns()).min(50 * MS);
      e2::run_for(slice)?;
      self.drain_status()?;
      // a slow node is slow for a few seconds, not for longer than the 10 s lease
      let now = simcore::now_ns();
      if !self.stalled_since.is_empty() {
        self.last_stall_seen = now;
      }
      let resume: Vec<u32> = self.stalled_since.iter().filter(|(_, t)| now - **t > 4 * SEC).map(|(n, _)| *n).collect();
      let heal: Vec<(u32, u32)> = self.cut_since.iter().filter(|(_, t)| now - **t > 4 * SEC).map(|(p, _)| *p).collect();
      for (a, b) in heal {
        self.cut_since.remove(&(a, b));
        e2::with(|st| {
          st.cut.remove(&(a, b));
          st.cut.remove(&(b, a));
          st.ctx.log(&format!("heal n{a}<->n{b}"));
        });
      }
      for n in resume {
        self.stalled_since.remove(&n);
        e2::with(|st| {
          st.stalled.remove(&n);
          st.ctx.log(&format!("resume n{n}"));
        });
      }
    }
    Ok(())
  }

  fn take_all(&mut self) -> Check {
    for r in self.rs.iter_mut() {
      if let Some(dr) = r.dr.as_mut() {
        simcore::set_node(self.parts[r.p].node);
        loop {
          match dr.take(16, ReadCondition::any()) {
            Ok(v2) => {
              if v2.is_empty() {
                break;
              }
              for s in v2 {
                let w = s.sample_info().writer_guid().to_bytes();
                let it = match s.into_value() {
                  Sample::Value(m) => Item::Value { k: m.k, v: m.v },
                  Sample::Dispose(k) => Item::Dispose { k },
                };
                r.got.entry(w).or_default().push(it);
              }
            }
            Err(e) => {
              return Err(v(
                "C07/take-failed",
                format!("take returned an error although all traffic is well formed: {e:?}"),
              ))
            }
          }
        }
      }
    }
    Ok(())
  }

  /// streams received so far are always a hole-free, in-order, unaltered piece of what was written
  fn check_streams_safety(&self) -> Check {
    for r in &self.rs {
      for (wg, got) in &r.got {
        let w = match self.ws.iter().find(|w| w.guid == *wg) {
          Some(w) => w,
          None => {
            return Err(v(
              "C07/sample-from-unknown-writer",
              format!("reader received {} samples attributed to a writer that does not exist", got.len()),
            ))
          }
        };
        if got.is_empty() {
          continue;
        }
        // find got as a contiguous run inside w.written; a pair that was unmatched
        // at some time (lease expired under a long stall or partition) may have
        // legitimate holes: then only order and content are asserted
        let n = w.written.len();
        let had_unmatch = self.relaxed.contains(&(*wg, r.guid));
        // readers of one participant share the receive cache of the topic: samples a sibling
        // has received before this reader existed may show through, in order but with holes
        // (asserted separately at the end of the run); what follows them is hole-free
        let has_sibling = self.rs.iter().any(|o| o.p == r.p && o.guid != r.guid);
        // (what was written before the pair was seen matched may still have reached the sibling only)
        let c = w.both_matched_at.get(&r.guid).copied().unwrap_or(n).max(r.len_at_creation.get(wg).copied().unwrap_or(0)).min(n);
        let contiguous = |g: &[Item], from: usize| g.is_empty() || (from..=n.saturating_sub(g.len())).any(|s| g.len() <= n && w.written[s..s + g.len()] == g[..]);
        let ok = if had_unmatch {
          let mut it = w.written.iter();
          got.iter().all(|g| it.any(|x| x == g))
        } else if has_sibling || c > 0 {
          // the same freedom for what was written before the pair was seen matched on both
          // sides: copies in flight to other readers (multicast) may or may not arrive around
          // the GAP a Volatile writer sends to a new reader
          (0..=got.len()).any(|i| {
            // got[..i]: any in-order selection of what had been written before the reader was created
            let mut pos = 0usize;
            for g in &got[..i] {
              match w.written[pos..c].iter().position(|x| x == g) {
                Some(k) => pos += k + 1,
                None => return false,
              }
            }
            contiguous(&got[i..], pos)
          })
        } else {
          contiguous(got, 0)
        };
        if !ok || got.len() > n {
          let class = if got.iter().any(|g| !w.written.contains(g)) {
            "C07/sample-altered"
          } else {
            "C07/stream-out-of-order-or-with-holes"
          };
          return Err(v(
            class,
            format!(
              "reader {:02x}{:02x} got from writer {:02x}{:02x}: {:?}; written: {:?}",
              r.guid[11],
              r.guid[14],
              wg[11],
              wg[14],
              brief(got),
              brief(&w.written)
            ),
          ));
        }
      }
    }
    Ok(())
  }
}

fn brief(v2: &[Item]) -> Vec<String> {
  v2.iter()
    .map(|i| match i {
      Item::Value { k, v } => format!("V{k}[{}]#{}", v.len(), v.first().copied().unwrap_or(0)),
      Item::Dispose { k } => format!("D{k}"),
    })
    .collect()
}

fn body(thorough: bool) -> Check {
  let n_parts = 2 + ch(|c| c.draw(2)) as usize;
  let fault_free = ch(|c| c.chance(1, 4));
  e2::with(|st| {
    if !fault_free {
      st.faults_on = true;
      st.net.drop_pct = *st.ctx.ch.pick(&[0u64, 5, 15, 30]);
      st.net.dup_pct = *st.ctx.ch.pick(&[0u64, 5, 15]);
      st.net.jitter = *st.ctx.ch.pick(&[0u64, MS, 30 * MS, 300 * MS]);
    }
    st.log_wire = std::env::var_os("VERIF_E2_WIRE").is_some(); // the wire is busy with discovery; the trace keeps operations and status events
  });
  let n_ops = ch(|c| c.range(6, if thorough { 60 } else { 36 }));
  let mut s = S {
    parts: (0..n_parts)
      .map(|i| Part {
        dropped_at: None,
        created_at: 0,
        node: 1 + i as u32,
        dp: None,
        publisher: None,
        subscriber: None,
        topic: None,
      })
      .collect(),
    ws: vec![],
    rs: vec![],
    step: 0,
    ops: String::new(),
    stalled_since: BTreeMap::new(),
    last_stall_seen: 0,
    cut_since: BTreeMap::new(),
    relaxed: BTreeSet::new(),
    unmatch_seen: BTreeSet::new(),
    deletions: vec![],
  };
  e2::log(&format!(
    "cfg participants={n_parts} fault_free={fault_free} net={:?} ops={n_ops}",
    e2::with(|st| (st.net.drop_pct, st.net.dup_pct, st.net.jitter / MS))
  ));
  let wq = |tl: bool| qos(true, History::KeepAll, tl);

  for _ in 0..n_ops {
    s.step += 1;
    let alive_parts: Vec<usize> = (0..n_parts).filter(|i| s.parts[*i].dp.is_some()).collect();
    let uncreated: Vec<usize> = (0..n_parts).filter(|i| s.parts[*i].dp.is_none() && s.parts[*i].node != 0).collect();
    let live_w: Vec<usize> = (0..s.ws.len()).filter(|i| s.ws[*i].dw.is_some()).collect();
    let live_r: Vec<usize> = (0..s.rs.len()).filter(|i| s.rs[*i].dr.is_some()).collect();
    let faults_on = e2::with(|st| st.faults_on);
    let weights: [u64; 10] = [
      if uncreated.is_empty() { 0 } else { 14 },                                    // 0 create participant
      if alive_parts.is_empty() || s.ws.len() >= 3 { 0 } else { 10 },               // 1 create writer
      if alive_parts.is_empty() || s.rs.len() >= 3 { 0 } else { 10 },               // 2 create reader
      if live_w.is_empty() { 0 } else { 22 },                                       // 3 write / dispose
      14,                                                                           // 4 time passes
      if live_r.is_empty() { 0 } else { 8 },                                        // 5 take
      if faults_on && alive_parts.len() >= 2 { 5 } else { 0 },                      // 6 partition / heal
      if faults_on && !alive_parts.is_empty() { 3 } else { 0 },                     // 7 stall / resume a participant
      if live_w.len() + live_r.len() >= 2 { 4 } else { 0 },                         // 8 delete an endpoint
      if alive_parts.len() >= 2 { 2 } else { 0 },                                   // 9 drop a participant
    ];
    let op = ch(|c| c.weighted(&weights));
    match op {
      0 => {
        let i = uncreated[ch(|c| c.index(uncreated.len()))];
        let node = s.parts[i].node;
        let dp = new_participant(node)?;
        e2::log(&format!("op create participant {i} (node {node})"));
        s.ops.push('P');
        s.parts[i].dp = Some(dp);
        s.parts[i].created_at = simcore::now_ns();
      }
      1 | 2 => {
        let is_writer = op == 1;
        let i = alive_parts[ch(|c| c.index(alive_parts.len()))];
        let tl = ch(|c| c.flag());
        let node = s.parts[i].node;
        simcore::set_node(node);
        let q = wq(tl);
        if s.parts[i].topic.is_none() {
          let dp = s.parts[i].dp.as_ref().unwrap();
          let t = dp
            .create_topic("T".into(), "Msg".into(), &qos(true, History::KeepAll, false), TopicKind::WithKey)
            .map_err(|e| herr("topic", e))?;
          s.parts[i].topic = Some(leak(t));
        }
        if is_writer {
          if s.parts[i].publisher.is_none() {
            let p = s.parts[i].dp.as_ref().unwrap().create_publisher(&q).map_err(|e| herr("publisher", e))?;
            s.parts[i].publisher = Some(leak(p));
          }
          let dw: with_key::DataWriter<Msg> = s.parts[i]
            .publisher
            .as_ref()
            .unwrap()
            .create_datawriter_cdr(s.parts[i].topic.as_ref().unwrap(), Some(q))
            .map_err(|e| herr("writer", e))?;
          let g = dw.guid().to_bytes();
          e2::log(&format!("op create writer {:02x}{:02x} on participant {i} tl={tl}", g[11], g[14]));
          s.ops.push(if tl { 'W' } else { 'w' });
          let gone_before = s.settled_deleted(false, i);
          s.ws.push(W {
            p: i,
            dw: Some(leak(dw)),
            guid: g,
            tl,
            deleted_at: None,
            gone_before,
            written: vec![],
            written_at: vec![],
            matched: BTreeSet::new(),
            ever_matched: BTreeSet::new(),
            both_matched_at: BTreeMap::new(),
            created_at_step: s.step,
            unmatched_ever: BTreeSet::new(),
            last_current_count: None,
          });
        } else {
          if s.parts[i].subscriber.is_none() {
            let p = s.parts[i].dp.as_ref().unwrap().create_subscriber(&q).map_err(|e| herr("subscriber", e))?;
            s.parts[i].subscriber = Some(leak(p));
          }
          let dr: with_key::DataReader<Msg> = s.parts[i]
            .subscriber
            .as_ref()
            .unwrap()
            .create_datareader_cdr(s.parts[i].topic.as_ref().unwrap(), Some(q))
            .map_err(|e| herr("reader", e))?;
          let g = dr.guid().to_bytes();
          e2::log(&format!("op create reader {:02x}{:02x} on participant {i} tl={tl}", g[11], g[14]));
          s.ops.push(if tl { 'R' } else { 'r' });
          let now = simcore::now_ns();
          if !s.stalled_since.is_empty() {
            s.last_stall_seen = now;
          }
          let (last_fault, any_fault) = e2::with(|st| (st.last_fault_at, st.ctx.stats.keys().any(|k| k.starts_with("fault.d") || k == "fault.partition_drop")));
          let lens = s
            .ws
            .iter()
            .map(|w| {
              let old: BTreeSet<usize> = (0..w.written.len())
                .filter(|j| {
                  let t = w.written_at[*j];
                  t + SEC <= now && (!any_fault || last_fault < t) && (s.last_stall_seen == 0 || s.last_stall_seen < t)
                })
                .collect();
              (w.guid, old)
            })
            .collect();
          let gone_before = s.settled_deleted(true, i);
          s.rs.push(R {
            p: i,
            dr: Some(leak(dr)),
            guid: g,
            tl,
            deleted_at: None,
            gone_before,
            got: BTreeMap::new(),
            matched: BTreeSet::new(),
            ever_matched: BTreeSet::new(),
            unmatched_ever: BTreeSet::new(),
            old_at_creation: lens,
            len_at_creation: s.ws.iter().map(|w| (w.guid, w.written.len())).collect(),
          });
        }
      }
      3 => {
        let wi = live_w[ch(|c| c.index(live_w.len()))];
        if s.ws[wi].written.len() >= 28 {
          continue;
        }
        let node = s.parts[s.ws[wi].p].node;
        simcore::set_node(node);
        let k = ch(|c| c.draw(3)) as u32;
        let n = s.ws[wi].written.len();
        let dispose = ch(|c| c.chance(1, 5));
        let item = if dispose {
          Item::Dispose { k }
        } else {
          let big = ch(|c| c.chance(1, 4));
          let len = if big {
            // serialized size = 4 (k) + 4 (len) + body (+4 header): around the 1024 byte fragment size and beyond
            let base = ch(|c| *c.pick(&[1010usize, 1020, 2040, 3000]));
            base + ch(|c| c.draw(8)) as usize
          } else {
            ch(|c| c.draw(12)) as usize + 1
          };
          let mut body = vec![0u8; len];
          for (j, b) in body.iter_mut().enumerate() {
            *b = (wi as u8).wrapping_mul(31).wrapping_add(n as u8).wrapping_add(j as u8);
          }
          body[0] = n as u8;
          Item::Value { k, v: body }
        };
        let dw = s.ws[wi].dw.as_ref().unwrap();
        let res = match &item {
          Item::Value { k, v } => dw.write(Msg { k: *k, v: v.clone() }, None).map_err(|e| format!("{e:?}")),
          Item::Dispose { k } => dw.dispose(k, None).map_err(|e| format!("{e:?}")),
        };
        match res {
          Ok(()) => {
            e2::log(&format!("op write {:02x}{:02x} {:?}", s.ws[wi].guid[11], s.ws[wi].guid[14], brief(&[item.clone()])));
            s.ops.push(if dispose { 'd' } else { 'v' });
            s.ws[wi].written.push(item);
            s.ws[wi].written_at.push(simcore::now_ns());
          }
          Err(e) => {
            // a full queue (WouldBlock) is a legal answer under a stalled event loop
            e2::log(&format!("op write refused: {}", &e[..e.len().min(60)]));
            e2::count("probe.write_would_block");
          }
        }
      }
      4 => {
        let d = ch(|c| *c.pick(&[20 * MS, 300 * MS, 1500 * MS, 4 * SEC]));
        s.pass_time(d)?;
        s.ops.push('.');
      }
      5 => {
        s.take_all()?;
        s.check_streams_safety()?;
        s.ops.push('t');
      }
      6 => {
        let a = alive_parts[ch(|c| c.index(alive_parts.len()))];
        let b = alive_parts[ch(|c| c.index(alive_parts.len()))];
        if a != b {
          let (na, nb) = (s.parts[a].node, s.parts[b].node);
          let now = simcore::now_ns();
          let cut = e2::with(|st| {
            if st.cut.contains(&(na, nb)) {
              st.cut.remove(&(na, nb));
              st.cut.remove(&(nb, na));
              st.ctx.count("fault.heal");
              st.ctx.log(&format!("heal n{na}<->n{nb}"));
              false
            } else {
              st.cut.insert((na, nb));
              st.cut.insert((nb, na));
              st.ctx.count("fault.partition");
              st.ctx.log(&format!("partition n{na}/n{nb}"));
              true
            }
          });
          if cut {
            s.cut_since.insert((na, nb), now);
          } else {
            s.cut_since.remove(&(na, nb));
            s.cut_since.remove(&(nb, na));
          }
        }
      }
      7 => {
        let a = alive_parts[ch(|c| c.index(alive_parts.len()))];
        let n = s.parts[a].node;
        let now = simcore::now_ns();
        let stalled = e2::with(|st| {
          if !st.stalled.remove(&n) {
            st.stalled.insert(n);
            st.ctx.count("fault.stall");
            st.ctx.log(&format!("stall n{n}"));
            true
          } else {
            st.ctx.log(&format!("resume n{n}"));
            false
          }
        });
        if stalled {
          s.stalled_since.insert(n, now);
        } else {
          s.stalled_since.remove(&n);
        }
      }
      8 => {
        // deletions run RustDDS' Drop code: nobody may be stalled meanwhile
        e2::with(|st| st.stalled.clear());
        s.stalled_since.clear();
        let total = live_w.len() + live_r.len();
        let x = ch(|c| c.index(total));
        if x < live_w.len() {
          let wi = live_w[x];
          simcore::set_node(s.parts[s.ws[wi].p].node);
          s.take_all()?;
          let dw = s.ws[wi].dw.take().unwrap();
          s.ws[wi].deleted_at = Some(simcore::now_ns());
          e2::log(&format!("op delete writer {:02x}{:02x}", s.ws[wi].guid[11], s.ws[wi].guid[14]));
          let wg = s.ws[wi].guid;
          let wp = s.ws[wi].p;
          let peers: Vec<Guid> = s
            .rs
            .iter()
            // peers: readers that had matched it themselves (they reported the match, or data arrived at a
            // reader that has no sibling whose receive cache it could have come through); for a deleted
            // reader: the writers that reported a match with it
            .filter(|r| {
              let lone = !s.rs.iter().any(|o| o.p == r.p && o.guid != r.guid);
              r.p != wp
                && r.dr.is_some()
                && (s.ws[wi].tl || !r.tl)
                && (r.ever_matched.contains(&wg) || (lone && r.got.get(&wg).map_or(false, |g| !g.is_empty())))
            })
            .map(|r| r.guid)
            .collect();
          for pg in peers {
            s.deletions.push((wg, pg, "writer"));
          }
          dw.delete();
          s.ops.push('x');
        } else {
          let ri = live_r[x - live_w.len()];
          simcore::set_node(s.parts[s.rs[ri].p].node);
          s.take_all()?;
          let dr = s.rs[ri].dr.take().unwrap();
          s.rs[ri].deleted_at = Some(simcore::now_ns());
          e2::log(&format!("op delete reader {:02x}{:02x}", s.rs[ri].guid[11], s.rs[ri].guid[14]));
          let rg = s.rs[ri].guid;
          let rp = s.rs[ri].p;
          let peers: Vec<Guid> = s
            .ws
            .iter()
            .filter(|w| {
              let r = &s.rs[ri];
              w.p != rp
                && w.dw.is_some()
                && (w.tl || !r.tl)
                && w.ever_matched.contains(&r.guid)
            })
            .map(|w| w.guid)
            .collect();
          for pg in peers {
            s.deletions.push((rg, pg, "reader"));
          }
          dr.delete();
          s.ops.push('y');
        }
        e2::count("op.delete_endpoint");
      }
      _ => {
        e2::with(|st| st.stalled.clear());
        s.stalled_since.clear();
        let a = alive_parts[ch(|c| c.index(alive_parts.len()))];
        s.take_all()?;
        simcore::set_node(s.parts[a].node);
        e2::log(&format!("op drop participant {a}"));
        // its endpoints go first, as an application would do (they refer to the participant)
        for w in s.ws.iter_mut().filter(|w| w.p == a) {
          if let Some(dw) = w.dw.take() {
            w.deleted_at = Some(simcore::now_ns());
            dw.delete();
          }
        }
        for r in s.rs.iter_mut().filter(|r| r.p == a) {
          if let Some(dr) = r.dr.take() {
            r.deleted_at = Some(simcore::now_ns());
            dr.delete();
          }
        }
        if let Some(p) = s.parts[a].publisher.take() {
          p.delete();
        }
        if let Some(p) = s.parts[a].subscriber.take() {
          p.delete();
        }
        if let Some(t) = s.parts[a].topic.take() {
          t.delete();
        }
        if let Some(dp) = s.parts[a].dp.take() {
          dp.delete();
        }
        s.parts[a].dropped_at = Some(simcore::now_ns());
        s.parts[a].node = 0; // never re-created
        s.ops.push('X');
        e2::count("op.drop_participant");
      }
    }
    e2::check()?;
    s.drain_status()?;
  }

  // ---- faults stop; bounded liveness ------------------------------------------------------------
  e2::with(|st| {
    st.faults_on = false;
    st.cut.clear();
    st.stalled.clear();
    st.ctx.log("faults stop");
  });
  s.stalled_since.clear();
  s.cut_since.clear();
  let t0 = simcore::now_ns();
  let bound = 90 * SEC;
  // discovery may still be under way: give it a moment, then every live writer
  // writes a probe; matching is observed by what a user relies on - delivery
  s.pass_time(10 * SEC)?;
  let mut probes: BTreeMap<Guid, Item> = BTreeMap::new();
  for wi in 0..s.ws.len() {
    if s.ws[wi].dw.is_none() {
      continue;
    }
    simcore::set_node(s.parts[s.ws[wi].p].node);
    let n = s.ws[wi].written.len();
    let item = Item::Value {
      k: 7,
      v: vec![n as u8, 0xfe, wi as u8],
    };
    let mut tries = 0;
    loop {
      let dw = s.ws[wi].dw.as_ref().unwrap();
      match dw.write(Msg { k: 7, v: vec![n as u8, 0xfe, wi as u8] }, None) {
        Ok(()) => break,
        Err(e) => {
          tries += 1;
          if tries > 50 {
            return Err(v("C07/write-refused-without-faults", format!("probe write keeps failing: {e:?}")));
          }
          s.pass_time(100 * MS)?;
        }
      }
    }
    e2::log(&format!("op probe write {:02x}{:02x}", s.ws[wi].guid[11], s.ws[wi].guid[14]));
    s.ws[wi].written.push(item.clone());
    s.ws[wi].written_at.push(simcore::now_ns());
    probes.insert(s.ws[wi].guid, item);
  }
  let expect_pairs = |s: &S| -> Vec<(usize, usize)> {
    let mut v2 = vec![];
    for (wi, w) in s.ws.iter().enumerate() {
      for (ri, r) in s.rs.iter().enumerate() {
        if w.dw.is_some() && r.dr.is_some() && (w.tl || !r.tl) {
          v2.push((wi, ri));
        }
      }
    }
    v2
  };
  let missing = |s: &S| -> Option<String> {
    for (wi, ri) in expect_pairs(s) {
      let (w, r) = (&s.ws[wi], &s.rs[ri]);
      let probe = &probes[&w.guid];
      if !r.got.get(&w.guid).map_or(false, |g| g.contains(probe)) {
        return Some(format!(
          "reader {:02x}{:02x} (tl={}) has not received the sample writer {:02x}{:02x} (tl={}) wrote {} s after the last fault",
          r.guid[11], r.guid[14], r.tl, w.guid[11], w.guid[14], w.tl, 10
        ));
      }
    }
    None
  };
  let mut why = None;
  while simcore::now_ns() < t0 + bound {
    s.pass_time(SEC)?;
    s.take_all()?;
    s.check_streams_safety()?;
    why = missing(&s);
    if why.is_none() {
      break;
    }
  }
  let rec = (simcore::now_ns() - t0) / MS;
  e2::with(|st| {
    let cur = st.ctx.stats.get("max.settle_ms").copied().unwrap_or(0);
    if rec > cur {
      st.ctx.stats.insert("max.settle_ms".into(), rec);
    }
  });
  if let Some(w) = why {
    return Err(v(
      "C07/compatible-pair-does-not-deliver",
      format!("{} simulated s after the last fault: {w}; ops {}", bound / SEC, s.ops),
    ));
  }
  s.pass_time(2 * SEC)?;
  s.take_all()?;
  s.check_streams_safety()?;
  // ---- completeness of the streams -------------------------------------------------------------------------
  for (wi, ri) in expect_pairs(&s) {
    let (w, r) = (&s.ws[wi], &s.rs[ri]);
    let got = r.got.get(&w.guid).cloned().unwrap_or_default();
    let relaxed = s.relaxed.contains(&(w.guid, r.guid));
    if relaxed {
      e2::count("probe.pair_relaxed_after_liveliness_gap");
      continue;
    }
    let n = w.written.len();
    if w.tl && r.tl {
      if got != w.written {
        return Err(v(
          "C07/transient-local-history-incomplete",
          format!(
            "TransientLocal reader {:02x}{:02x} got {:?} of TransientLocal writer {:02x}{:02x} which wrote {:?}; ops {}",
            r.guid[11], r.guid[14], brief(&got), w.guid[11], w.guid[14], brief(&w.written), s.ops
          ),
        ));
      }
    } else if !{
      // a reader with a sibling in its participant may first see some of what was written
      // before it was created (shared receive cache, asserted at the end of the run)
      let has_sibling = s.rs.iter().any(|o| o.p == r.p && o.guid != r.guid);
      let c = w.both_matched_at.get(&r.guid).copied().unwrap_or(n).max(r.len_at_creation.get(&w.guid).copied().unwrap_or(0)).min(n);
      let is_suffix = |g: &[Item]| g.len() <= n && w.written[n - g.len()..] == g[..];
      if has_sibling || c > 0 {
        (0..=got.len()).any(|i| {
          let mut pos = 0usize;
          for g in &got[..i] {
            match w.written[pos..c].iter().position(|x| x == g) {
              Some(k) => pos += k + 1,
              None => return false,
            }
          }
          got.len() - i <= n - pos.min(n) && is_suffix(&got[i..])
        })
      } else {
        is_suffix(&got)
      }
    } {
      return Err(v(
        "C07/stream-incomplete",
        format!(
          "reader {:02x}{:02x} got {:?} from writer {:02x}{:02x}: not everything written since the first delivered sample ({:?}); ops {}",
          r.guid[11], r.guid[14], brief(&got), w.guid[11], w.guid[14], brief(&w.written), s.ops
        ),
      ));
    }
  }
  // ---- incompatible pairs never matched; volatile pairs get no history; deletions were seen -----------------
  for w in &s.ws {
    for r in &s.rs {
      let compatible = w.tl || !r.tl;
      if !compatible && (w.ever_matched.contains(&r.guid) || r.ever_matched.contains(&w.guid)) {
        return Err(v(
          "C07/incompatible-pair-matched",
          format!("Volatile writer {:02x}{:02x} and TransientLocal reader {:02x}{:02x} were matched", w.guid[11], w.guid[14], r.guid[11], r.guid[14]),
        ));
      }
    }
  }
  for (deleted, peer, what) in &s.deletions {
    if !s.unmatch_seen.contains(&(*peer, *deleted)) {
      // only owed if the peer is still there
      let peer_alive = s.ws.iter().any(|w| w.guid == *peer && w.dw.is_some()) || s.rs.iter().any(|r| r.guid == *peer && r.dr.is_some());
      if peer_alive {
        return Err(v(
          "C07/deletion-not-seen-as-unmatch",
          format!(
            "{what} {:02x}{:02x} was deleted; its matched peer {:02x}{:02x} in another participant never saw an unmatch or a lost-endpoint event; ops {}",
            deleted[11], deleted[14], peer[11], peer[14], s.ops
          ),
        ));
      }
    }
  }
  // ---- a reader receives nothing that was history when it was created, unless both sides are TransientLocal ----
  // (last, because two of its classes are known findings and end the run)
  for w in &s.ws {
    for r in &s.rs {
      let compatible = w.tl || !r.tl;
      if !compatible || (w.tl && r.tl) {
        continue;
      }
      let got = match r.got.get(&w.guid) {
        Some(g) if !g.is_empty() => g,
        _ => continue,
      };
      // position of each received item in what was written: matched from the end, that is as late as possible
      let mut idx = vec![];
      let mut j = w.written.len();
      for g in got.iter().rev() {
        while j > 0 && w.written[j - 1] != *g {
          j -= 1;
        }
        if j == 0 {
          break;
        }
        j -= 1;
        idx.push(j);
      }
      let old = match r.old_at_creation.get(&w.guid) {
        Some(o) => o,
        None => continue,
      };
      let old_got: Vec<usize> = idx.iter().rev().copied().filter(|j| old.contains(j)).collect();
      if old_got.is_empty() {
        continue;
      }
      // readers of one participant share the receive cache of the topic: what a sibling
      // reader has received (or pulls in later) shows through to a new reader
      let has_sibling = s.rs.iter().any(|o| o.p == r.p && o.guid != r.guid);
      let class = if has_sibling {
        "C07/history-shows-through-receive-cache-shared-with-sibling-reader"
      } else if w.tl {
        "C07/volatile-reader-received-history-of-transient-local-writer"
      } else {
        "C07/volatile-writer-sent-history"
      };
      return Err(v(
        class,
        format!(
          "writer {:02x}{:02x} tl={} / reader {:02x}{:02x} tl={}: samples {old_got:?} had been written and sent more than 1 s before the reader was created (nothing lost, duplicated or stalled since) and yet it received them (it got {} of {}); ops {}",
          w.guid[11],
          w.guid[14],
          w.tl,
          r.guid[11],
          r.guid[14],
          r.tl,
          got.len(),
          w.written.len(),
          s.ops
        ),
      ));
    }
  }
  let delivered: usize = s.rs.iter().map(|r| r.got.values().map(|g| g.len()).sum::<usize>()).sum();
  let pairs = expect_pairs(&s).len();
  e2::with(|st| {
    st.ctx.nontrivial = delivered >= 1 && pairs >= 1;
    st.ctx.add("samples_delivered", delivered as u64);
    st.ctx.add("pairs_matched_at_end", pairs as u64);
    let mut f = simcore::digest::Fnv::new();
    f.str(&s.ops).u64(delivered as u64).u64(pairs as u64);
    st.ctx.state(f.get());
  });
  Ok(())
}
