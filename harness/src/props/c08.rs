//! C08 — read/take honour DDS sample, view and instance semantics and History
//! depth.  Engine E2 (real DataReader + DataSampleCache behind real discovery;
//! arrivals are scripted wire traffic in the name of silent real writers),
//! checked call by call against a sequential reference model of DDS 1.4
//! section 2.2.2.5.1.

use std::collections::{BTreeMap, BTreeSet};

use rustdds::{
  policy::History, with_key, with_key::Sample, InstanceState, RTPSEntity, ReadCondition, SampleInfo, SampleState,
  SelectByKey, TopicKind, ViewState,
};

use super::{c09::{E2_REAL, E2_STUB}, Spec};
use crate::{
  ctx::{Check, Ctx, Violation},
  e2::{self, MS, SEC},
  e2rig::*,
  wire::{Guid, Sub},
};

pub fn spec() -> Spec {
  Spec {
    id: "C08",
    engine: "E2 participant (real DataReader/DataSampleCache/SimpleDataReader/Reader/TopicCache; scripted wire traffic in the name of 1-3 silent real writers)",
    level: "exploration",
    rule: "one case = one seeded run: 4-40 steps, each an arrival (value or dispose, by key or by known key hash, 1-3 writers, 1-4 instances) or a call of read / take / read_next_sample / take_next_sample / read_instance / take_instance (This/Next/None) / iterator / into_iterator / conditional variants, with ReadCondition any/not_read and max_samples in {0,1,2,all}; History KeepAll / KeepLast(1-3); every returned collection compared with a sequential reference model; non-trivial = at least one non-empty result; distinct = fingerprint of (arrival, call, result) sequence",
    quick_runs: 10_000,
    quick_secs: 120.0,
    thorough_runs: 400_000,
    thorough_secs: 1500.0,
    batch: 1,
    per_run_timeout_s: 15.0,
    real: E2_REAL,
    stub: E2_STUB,
    assumptions: &[
      "the only scheduling freedom is when arrivals become visible relative to calls; given that order the behaviour is sequential (model-based simulation, weak end of the family: see DESIGN.md section 8)",
      "when several writers have changes pending between two application calls, the model ingests them in the order the reliable reader does (writer GUID, then sequence number), not in reception order: the order of becoming visible is the implementation's choice (DESIGN.md section 12, note on C08)",
      "which subset a truncated (max_samples) result contains is not prescribed: it must be a correctly sized subset of the matching samples in per-writer sequence-number order",
      "view state is compared on the most recent sample of each instance in a result, ranks are not compared",
    ],
  }
}

#[derive(Clone, Debug, PartialEq, Eq)]
enum Val {
  Value(Vec<u8>),
  Dispose,
}

#[derive(Clone, Debug)]
struct MSample {
  id: u64,  // arrival index (unique, = reception order)
  ing: u64, // ingestion index: the order in which the reader made the changes visible
  writer: usize,
  sn: i64,
  key: u32,
  val: Val,
  gen: i32,
  read: bool,
}

#[derive(Clone, Debug)]
struct MInst {
  state: InstanceState,
  disposed_gen: i32,
  last_gen_accessed: i32, // -1 = never accessed
}

struct Model {
  depth: Option<usize>,
  ingested: u64,
  samples: Vec<MSample>, // in reception order
  inst: BTreeMap<u32, MInst>,
}

impl Model {
  fn add(&mut self, s: MSample) {
    let new_state = match s.val {
      Val::Value(_) => InstanceState::Alive,
      Val::Dispose => InstanceState::NotAliveDisposed,
    };
    let mut s = s;
    match self.inst.get_mut(&s.key) {
      None => {
        self.inst.insert(
          s.key,
          MInst {
            state: new_state,
            disposed_gen: 0,
            last_gen_accessed: -1,
          },
        );
        s.gen = 0;
      }
      Some(i) => {
        if i.state == InstanceState::NotAliveDisposed && new_state == InstanceState::Alive {
          i.disposed_gen += 1;
        }
        i.state = new_state;
        s.gen = i.disposed_gen;
      }
    }
    let key = s.key;
    self.ingested += 1;
    s.ing = self.ingested;
    self.samples.push(s);
    // the cache is ordered by reception (arrival id), whatever the ingestion order.
    // KeepLast keeps the most recent changes of the instance: the earliest reception says
    // which writer loses a sample, and that writer loses its lowest sequence number (a change
    // that overtook a lost and repaired predecessor was received earlier but is the newer one)
    self.samples.sort_by_key(|x| x.id);
    if let Some(d) = self.depth {
      while self.samples.iter().filter(|x| x.key == key).count() > d {
        let w = self.samples.iter().find(|x| x.key == key).unwrap().writer;
        let victim = self
          .samples
          .iter()
          .filter(|x| x.key == key && x.writer == w)
          .min_by_key(|x| x.sn)
          .unwrap()
          .id;
        self.samples.retain(|x| x.id != victim);
      }
    }
  }

  fn matching(&self, not_read_only: bool, key: Option<u32>) -> Vec<u64> {
    self
      .samples
      .iter()
      .filter(|s| (!not_read_only || !s.read) && key.map_or(true, |k| s.key == k))
      .map(|s| s.id)
      .collect()
  }

  fn get(&self, id: u64) -> &MSample {
    self.samples.iter().find(|s| s.id == id).unwrap()
  }

  fn access(&mut self, ids: &[u64], take: bool) {
    // most recent generation viewed per instance
    let mut acc: BTreeMap<u32, i32> = BTreeMap::new();
    for id in ids {
      let s = self.get(*id).clone();
      let e = acc.entry(s.key).or_insert(s.gen);
      if s.gen > *e {
        *e = s.gen;
      }
    }
    for (k, g) in acc {
      if let Some(i) = self.inst.get_mut(&k) {
        i.last_gen_accessed = i.last_gen_accessed.max(g);
      }
    }
    if take {
      self.samples.retain(|s| !ids.contains(&s.id));
    } else {
      for s in self.samples.iter_mut() {
        if ids.contains(&s.id) {
          s.read = true;
        }
      }
    }
  }
}

pub fn run(tier: &str, ctx: &mut Ctx) -> Check {
  e2::enter(ctx);
  let r = body(tier == "thorough");
  e2::leave(ctx);
  r
}

fn ch<R>(f: impl FnOnce(&mut simcore::choice::Chooser) -> R) -> R {
  e2::with(|st| f(&mut st.ctx.ch))
}

#[derive(Clone, Debug)]
struct Got {
  key: u32,
  val: Val,
  info: Option<SampleInfo>,
}

fn v(class: &str, d: String) -> Violation {
  Violation::new(class, d)
}

fn body(thorough: bool) -> Check {
  let n_writers = 1 + ch(|c| c.draw(3)) as usize;
  let depth: Option<usize> = if ch(|c| c.chance(1, 2)) {
    None
  } else {
    Some(1 + ch(|c| c.draw(3)) as usize)
  };
  let hist = match depth {
    None => History::KeepAll,
    Some(d) => History::KeepLast { depth: d as i32 },
  };
  let rq = qos(true, hist, false);
  let wq = qos(true, History::KeepAll, false);
  let n_keys = 1 + ch(|c| c.draw(4)) as u32;
  let steps = ch(|c| c.range(4, if thorough { 60 } else { 40 }));
  // in half of the runs several writers may have changes pending between two calls
  let free_mode = ch(|c| c.flag());

  let dpw = new_participant(WNODE)?;
  let dpr = new_participant(RNODE)?;
  simcore::set_node(WNODE);
  let tw = leak(
    dpw
      .create_topic("T".into(), "Msg".into(), &wq, TopicKind::WithKey)
      .map_err(|e| herr("topic", e))?,
  );
  let pubr = leak(dpw.create_publisher(&wq).map_err(|e| herr("publisher", e))?);
  let mut wguids: Vec<Guid> = vec![];
  let mut keep = leak(vec![]);
  for _ in 0..n_writers {
    let w: with_key::DataWriter<Msg> = pubr.create_datawriter_cdr(&tw, None).map_err(|e| herr("writer", e))?;
    wguids.push(w.guid().to_bytes());
    keep.push(w);
  }
  simcore::set_node(RNODE);
  let tr = leak(
    dpr
      .create_topic("T".into(), "Msg".into(), &rq, TopicKind::WithKey)
      .map_err(|e| herr("topic", e))?,
  );
  let sub = leak(dpr.create_subscriber(&rq).map_err(|e| herr("subscriber", e))?);
  let mut rd: Leak<with_key::DataReader<Msg>> =
    leak(sub.create_datareader_cdr(&tr, Some(rq.clone())).map_err(|e| herr("reader", e))?);
  e2::log(&format!("cfg writers={n_writers} depth={depth:?} keys={n_keys} steps={steps}"));

  let mut matched = 0usize;
  let ok = run_until_cond(DISCOVERY_BUDGET, 500 * MS, || {
    use rustdds::StatusEvented;
    while let Some(ev) = dpr.status_listener().try_recv_status() {
      if let rustdds::DomainParticipantStatusEvent::RemoteWriterMatched { remote_writer, .. } = ev {
        if wguids.contains(&remote_writer.to_bytes()) {
          matched += 1;
        }
      }
    }
    matched >= n_writers
  })?;
  if !ok {
    return Err(v(
      "HARNESS-ERROR/c08-no-match",
      format!("only {matched} of {n_writers} writers matched within the discovery budget"),
    ));
  }
  e2::run_for(SEC)?;
  stall_writer_node();

  let mut model = Model {
    depth,
    ingested: 0,
    samples: vec![],
    inst: BTreeMap::new(),
  };
  let mut next_sn: Vec<i64> = vec![1; n_writers];
  let mut arrival_id = 0u64;
  // arrivals that reached the reader but have not been ingested by a call yet
  let mut pending: Vec<MSample> = vec![];
  // per writer: a change that was lost on its way and has not been repaired yet
  let mut held: Vec<Option<(MSample, Sub)>> = (0..n_writers).map(|_| None).collect();
  // per writer: the lowest sequence number the reader has not been able to make visible yet
  let mut frontier: Vec<i64> = vec![1; n_writers];
  let mut hb_count: Vec<i32> = vec![0; n_writers];
  let mut keys_known_to_reader: BTreeSet<u32> = BTreeSet::new();
  let mut nonempty_results = 0u64;

  for _ in 0..steps {
    let arrive = ch(|c| c.chance(1, 2));
    if arrive {
      // the writer of a pending arrival continues, or (if nothing is pending) any writer
      let wi = match pending.last() {
        Some(p) => {
          if free_mode {
            ch(|c| c.index(n_writers))
          } else {
            p.writer
          }
        }
        None => ch(|c| c.index(n_writers)),
      };
      let g = wguids[wi];
      // a change that was lost on its way is repaired now: it arrives after its successors
      if held[wi].is_some() && ch(|c| c.chance(1, 3)) {
        let (mut ms, sub_msg) = held[wi].take().unwrap();
        arrival_id += 1;
        ms.id = arrival_id;
        e2::log(&format!("arrival #{arrival_id} w{wi} sn {} key {} {:?} (repair of a lost change)", ms.sn, ms.key, ms.val));
        hb_count[wi] += 1;
        send_as(&g, vec![sub_msg, hb_sub(&g, 1, next_sn[wi] - 1, hb_count[wi], true)], false, 100_000);
        e2::run_for(2 * MS)?;
        pending.push(ms);
        e2::count("fault.out_of_order_arrival");
        continue;
      }
      let key = ch(|c| c.draw(n_keys as u64)) as u32;
      let sn = next_sn[wi];
      next_sn[wi] += 1;
      let hold = held[wi].is_none() && ch(|c| c.chance(1, 6));
      if !hold {
        arrival_id += 1;
      }
      let kind = ch(|c| c.weighted(&[6, 3, if keys_known_to_reader.contains(&key) { 2 } else { 0 }]));
      let (sub_msg, val) = match kind {
        0 => {
          let body = vec![wi as u8, sn as u8, key as u8, 0xaa];
          (data_sub(&g, sn, msg_payload(key, &body)), Val::Value(body))
        }
        1 => (dispose_by_key_sub(&g, sn, key_payload(key)), Val::Dispose),
        _ => (dispose_by_hash_sub(&g, sn, key_hash(key)), Val::Dispose),
      };
      if hold {
        // lost on its way: the reader hears of it through later heartbeats only
        e2::log(&format!("w{wi} sn {sn} key {key} {:?} is lost on its way (repaired later)", val));
        held[wi] = Some((
          MSample {
            id: 0,
            ing: 0,
            writer: wi,
            sn,
            key,
            val,
            gen: 0,
            read: false,
          },
          sub_msg,
        ));
        e2::count("fault.drop");
        continue;
      }
      e2::log(&format!("arrival #{arrival_id} w{wi} sn {sn} key {key} {:?}", val));
      hb_count[wi] += 1;
      send_as(&g, vec![sub_msg, hb_sub(&g, 1, sn, hb_count[wi], true)], false, 100_000);
      e2::run_for(2 * MS)?;
      pending.push(MSample {
        id: arrival_id,
        ing: 0,
        writer: wi,
        sn,
        key,
        val,
        gen: 0,
        read: false,
      });
      e2::count("op.arrival");
      continue;
    }
    // ---- a call: the reader ingests everything that has arrived ---------------------------
    // A reliable reader ingests what has become available writer by writer (in
    // GUID order) and in sequence-number order within a writer; that ingestion
    // order is the order in which the arrivals "become visible" to the cache.
    // A change that arrived ahead of a lost predecessor becomes visible only after
    // the predecessor has been repaired.
    pending.sort_by_key(|p| (wguids[p.writer], p.sn));
    let mut still: Vec<MSample> = vec![];
    for p in pending.drain(..) {
      if p.sn == frontier[p.writer] {
        frontier[p.writer] += 1;
        keys_known_to_reader.insert(p.key);
        model.add(p);
      } else {
        still.push(p);
      }
    }
    pending = still;
    let not_read = ch(|c| c.flag());
    let rc = if not_read {
      ReadCondition::not_read()
    } else {
      ReadCondition::any()
    };
    let max = [usize::MAX, 0, 1, 2][ch(|c| c.index(4))];
    let call = ch(|c| c.draw(10));
    let key_arg: Option<u32> = if ch(|c| c.chance(1, 4)) {
      None
    } else {
      Some(ch(|c| c.draw(n_keys as u64 + 1)) as u32)
    };
    let this = ch(|c| c.flag());
    // what the model says the call may return
    let (name, take, m_not_read, m_max, m_key, with_info): (&str, bool, bool, usize, Option<Option<u32>>, bool) =
      match call {
        0 => ("read", false, not_read, max, None, true),
        1 => ("take", true, not_read, max, None, true),
        2 => ("read_next_sample", false, true, 1, None, true),
        3 => ("take_next_sample", true, true, 1, None, true),
        4 => ("read_instance", false, not_read, max, Some(key_arg), true),
        5 => ("take_instance", true, not_read, max, Some(key_arg), true),
        6 => ("iterator", false, true, usize::MAX, None, false),
        7 => ("into_iterator", true, true, usize::MAX, None, false),
        8 => ("conditional_iterator", false, not_read, usize::MAX, None, false),
        _ => ("into_conditional_iterator", true, not_read, usize::MAX, None, false),
      };
    // instance selection as the API documents it: This(k) = k; Next(k) = smallest known key > k; None = smallest known key
    let inst_sel: Option<Option<u32>> = m_key.map(|ka| match ka {
      None => model.inst.keys().next().copied(),
      Some(k) => {
        if this {
          Some(k)
        } else {
          model.inst.keys().find(|x| **x > k).copied()
        }
      }
    });
    let got: Vec<Got> = {
      let mk = |s: &Sample<Msg, u32>, info: Option<SampleInfo>| match s {
        Sample::Value(m) => Got {
          key: m.k,
          val: Val::Value(m.v.clone()),
          info,
        },
        Sample::Dispose(k) => Got {
          key: *k,
          val: Val::Dispose,
          info,
        },
      };
      let sel = if this { SelectByKey::This } else { SelectByKey::Next };
      let r: Result<Vec<Got>, String> = match call {
        0 => rd
          .read(max, rc)
          .map(|v| {
            v.iter()
              .map(|d| {
                let s: Sample<Msg, u32> = match d.value() {
                  Sample::Value(m) => Sample::Value((*m).clone()),
                  Sample::Dispose(k) => Sample::Dispose(*k),
                };
                mk(&s, Some(d.sample_info().clone()))
              })
              .collect()
          })
          .map_err(|e| format!("{e:?}")),
        1 => rd
          .take(max, rc)
          .map(|v| v.iter().map(|d| mk(d.value(), Some(d.sample_info().clone()))).collect())
          .map_err(|e| format!("{e:?}")),
        2 => rd
          .read_next_sample()
          .map(|o| {
            o.iter()
              .map(|d| {
                let s: Sample<Msg, u32> = match d.value() {
                  Sample::Value(m) => Sample::Value((*m).clone()),
                  Sample::Dispose(k) => Sample::Dispose(*k),
                };
                mk(&s, Some(d.sample_info().clone()))
              })
              .collect()
          })
          .map_err(|e| format!("{e:?}")),
        3 => rd
          .take_next_sample()
          .map(|o| o.iter().map(|d| mk(d.value(), Some(d.sample_info().clone()))).collect())
          .map_err(|e| format!("{e:?}")),
        4 => rd
          .read_instance(max, rc, key_arg, sel)
          .map(|v| {
            v.iter()
              .map(|d| {
                let s: Sample<Msg, u32> = match d.value() {
                  Sample::Value(m) => Sample::Value((*m).clone()),
                  Sample::Dispose(k) => Sample::Dispose(*k),
                };
                mk(&s, Some(d.sample_info().clone()))
              })
              .collect()
          })
          .map_err(|e| format!("{e:?}")),
        5 => rd
          .take_instance(max, rc, key_arg, sel)
          .map(|v| v.iter().map(|d| mk(d.value(), Some(d.sample_info().clone()))).collect())
          .map_err(|e| format!("{e:?}")),
        6 => rd
          .iterator()
          .map(|it| {
            it.map(|s| match s {
              Sample::Value(m) => mk(&Sample::Value(m.clone()), None),
              Sample::Dispose(k) => mk(&Sample::Dispose(k), None),
            })
            .collect()
          })
          .map_err(|e| format!("{e:?}")),
        7 => rd
          .into_iterator()
          .map(|it| it.map(|s| mk(&s, None)).collect())
          .map_err(|e| format!("{e:?}")),
        8 => rd
          .conditional_iterator(rc)
          .map(|it| {
            it.map(|s| match s {
              Sample::Value(m) => mk(&Sample::Value(m.clone()), None),
              Sample::Dispose(k) => mk(&Sample::Dispose(k), None),
            })
            .collect()
          })
          .map_err(|e| format!("{e:?}")),
        _ => rd
          .into_conditional_iterator(rc)
          .map(|it| it.map(|s| mk(&s, None)).collect())
          .map_err(|e| format!("{e:?}")),
      };
      match r {
        Ok(g) => g,
        Err(e) => {
          return Err(v(
            "C08/call-failed",
            format!("{name} returned an error although every change is intelligible: {e}"),
          ))
        }
      }
    };
    let desc = format!(
      "{name}(max={}, {}{}{})",
      if m_max == usize::MAX { "all".into() } else { m_max.to_string() },
      if m_not_read { "not_read" } else { "any" },
      match m_key {
        Some(k) => format!(", key={k:?}"),
        None => String::new(),
      },
      if m_key.is_some() { if this { ", This" } else { ", Next" } } else { "" }
    );
    e2::log(&format!(
      "call {desc} -> {:?}",
      got.iter().map(|g| (g.key, &g.val)).collect::<Vec<_>>()
    ));
    e2::count("op.call");

    // ---- compare with the model -------------------------------------------------------------
    let candidates: Vec<u64> = match inst_sel {
      None => model.matching(m_not_read, None),
      Some(None) => vec![],
      Some(Some(k)) => model.matching(m_not_read, Some(k)),
    };
    let expect_n = candidates.len().min(m_max);
    if got.len() != expect_n {
      return Err(v(
        if got.len() > expect_n {
          "C08/too-many-samples-returned"
        } else {
          "C08/too-few-samples-returned"
        },
        format!(
          "{desc} returned {} samples, the model has {} matching (returns {expect_n}); model samples {:?}",
          got.len(),
          candidates.len(),
          model.samples.iter().map(|s| (s.id, s.key, s.read)).collect::<Vec<_>>()
        ),
      ));
    }
    // attribute every returned sample to a distinct model sample; results without
    // SampleInfo can be ambiguous (a dispose carries only its key), so search for
    // an attribution that respects per-writer sequence-number order
    let fits = |g: &Got, id: u64| -> bool {
      let s = model.get(id);
      if s.key != g.key || s.val != g.val {
        return false;
      }
      match &g.info {
        Some(i) => {
          i64::from(i.sample_identity().sequence_number) == s.sn && i.writer_guid().to_bytes() == wguids[s.writer]
        }
        None => true,
      }
    };
    // every returned sample must at least be selectable
    for g in &got {
      if !candidates.iter().any(|id| fits(g, *id)) {
        return Err(v(
          "C08/returned-sample-not-selectable",
          format!(
            "{desc} returned (key {}, {:?}) which is not among the matching samples of the model {:?}",
            g.key,
            g.val,
            candidates
              .iter()
              .map(|id| {
                let s = model.get(*id);
                (s.key, s.val.clone(), s.sn, s.read)
              })
              .collect::<Vec<_>>()
          ),
        ));
      }
    }
    fn search(
      i: usize,
      got: &[Got],
      candidates: &[u64],
      fits: &dyn Fn(&Got, u64) -> bool,
      model: &Model,
      used: &mut Vec<u64>,
      ordered: bool,
    ) -> bool {
      if i == got.len() {
        return true;
      }
      for id in candidates {
        if used.contains(id) || !fits(&got[i], *id) {
          continue;
        }
        if ordered {
          let s = model.get(*id);
          if used.iter().any(|u| {
            let p = model.get(*u);
            p.writer == s.writer && p.sn >= s.sn
          }) {
            continue;
          }
        }
        used.push(*id);
        if search(i + 1, got, candidates, fits, model, used, ordered) {
          return true;
        }
        used.pop();
      }
      false
    }
    let mut used: Vec<u64> = vec![];
    if !search(0, &got, &candidates, &fits, &model, &mut used, true) {
      used.clear();
      if search(0, &got, &candidates, &fits, &model, &mut used, false) {
        return Err(v(
          "C08/writer-order-violated-in-result",
          format!(
            "{desc}: no attribution of the result {:?} to the model's samples keeps every writer's samples in sequence-number order",
            got.iter().map(|g| (g.key, &g.val)).collect::<Vec<_>>()
          ),
        ));
      }
      return Err(v(
        "C08/sample-returned-twice",
        format!(
          "{desc}: the result {:?} cannot be attributed to distinct samples of the model",
          got.iter().map(|g| (g.key, &g.val)).collect::<Vec<_>>()
        ),
      ));
    }
    // SampleInfo
    if with_info {
      // most recent returned sample per instance
      let mut most_recent: BTreeMap<u32, u64> = BTreeMap::new();
      for id in &used {
        let s = model.get(*id);
        let e = most_recent.entry(s.key).or_insert(*id);
        if s.ing > model.get(*e).ing {
          *e = *id;
        }
      }
      for (g, id) in got.iter().zip(used.iter()) {
        let s = model.get(*id);
        let inst = &model.inst[&s.key];
        let info = g.info.as_ref().unwrap();
        let exp_state = if s.read { SampleState::Read } else { SampleState::NotRead };
        if info.sample_state() != exp_state {
          return Err(v(
            "C08/sample-state-wrong",
            format!("{desc}: sample (key {}, sn {}) reported {:?}, model {:?}", s.key, s.sn, info.sample_state(), exp_state),
          ));
        }
        if info.instance_state() != inst.state {
          return Err(v(
            "C08/instance-state-wrong",
            format!("{desc}: instance {} reported {:?}, model {:?}", s.key, info.instance_state(), inst.state),
          ));
        }
        if info.disposed_generation_count() != s.gen || info.no_writers_generation_count() != 0 {
          return Err(v(
            "C08/generation-count-wrong",
            format!(
              "{desc}: sample (key {}, sn {}) reported generations ({},{}), model ({},0)",
              s.key,
              s.sn,
              info.disposed_generation_count(),
              info.no_writers_generation_count(),
              s.gen
            ),
          ));
        }
        if most_recent.get(&s.key) == Some(id) {
          let exp_view = if s.gen > inst.last_gen_accessed {
            ViewState::New
          } else {
            ViewState::NotNew
          };
          if info.view_state() != exp_view {
            return Err(v(
              "C08/view-state-wrong",
              format!(
                "{desc}: most recent sample of instance {} (generation {}) reported {:?}, model {:?} (most recent generation viewed before the call: {})",
                s.key,
                s.gen,
                info.view_state(),
                exp_view,
                inst.last_gen_accessed
              ),
            ));
          }
        }
      }
    }
    model.access(&used, take);
    if !got.is_empty() {
      nonempty_results += 1;
    }
    e2::with(|st| {
      let mut f = simcore::digest::Fnv::new();
      f.str(&desc).u64(got.len() as u64).u64(model.samples.len() as u64);
      st.ctx.state(f.get());
    });
  }
  e2::with(|st| {
    st.ctx.nontrivial = nonempty_results >= 1;
    st.ctx.add("nonempty_results", nonempty_results);
  });
  let _ = &mut rd;
  Ok(())
}

