//! C09 — a bad or unintelligible change never wedges a reader (engine E2:
//! real DataReader / SimpleDataReader front ends, real Reader behind them).

use std::{
  pin::Pin,
  task::{Context, Poll},
};

use futures::stream::Stream;
use rustdds::{
  no_key,
  policy::History,
  with_key::{self, Sample},
  CDRDeserializerAdapter, RTPSEntity, ReadCondition, TopicKind,
};

use super::Spec;
use crate::{
  ctx::{Check, Ctx, Violation},
  e2::{self, MS, SEC},
  e2rig::*,
  wire::{Guid, Sub},
};

pub fn spec() -> Spec {
  Spec {
    id: "C09",
    engine: "E2 participant (real DomainParticipants with their event-loop and discovery threads under the baton scheduler; arrivals are scripted wire traffic in the name of a silent real writer)",
    level: "exploration",
    rule: "one case = one seeded run: 1-2 writers x 1-8 changes, each change one of {intelligible value, undecodable CDR, unknown representation id, dispose by key, dispose with undecodable key, dispose by known key hash, dispose by never-seen key hash} at every position including the head of the queue; reliable or best-effort reader; with_key or no_key; drained through take / take_next_sample / into_iterator / async stream / SimpleDataReader with calls interleaved with arrivals; oracle: every call returns (wall-clock watchdog), at most one error per bad change, every intelligible change of every writer delivered once and in order; non-trivial = at least one intelligible change delivered and one unintelligible one present; distinct = fingerprint of (form, kinds, results)",
    quick_runs: 12_000,
    quick_secs: 120.0,
    thorough_runs: 400_000,
    thorough_secs: 1500.0,
    batch: 1,
    per_run_timeout_s: 10.0,
    real: E2_REAL,
    stub: E2_STUB,
    assumptions: &[
      "hang detection is a wall-clock watchdog on the forked run (10 s); the replay file then holds the seed and decision list of the run that did not return",
      "the scripted peer uses the GUID of a real writer that was matched through real SPDP/SEDP discovery and then went silent",
    ],
  }
}

pub const E2_REAL: &[&str] = &[
  "dds::DomainParticipant, Publisher, Subscriber, Topic, DataWriter, DataReader, SimpleDataReader, DataSampleCache (public API)",
  "rtps::DPEventLoop::event_loop() and discovery::Discovery::discovery_event_loop() bodies incl. token dispatch, on their own threads",
  "rtps::MessageReceiver, Reader, Writer, proxies, FragmentAssembler, TopicCache/DDSCache, DiscoveryDB",
  "network::UDPListener::messages() buffer handling; all (de)serialisers; status channels; mio-0.8 socketpair notification sources",
];
pub const E2_STUB: &[&str] = &[
  "kernel UDP and epoll: mio 0.6 Poll/UdpSocket replaced by mio06-sim (readiness queue mirrored from mio 0.6; FIFO event order, seed-chosen batch prefixes)",
  "mio-extras timer wheel and channels: mio-extras-sim on simulated time",
  "wall and monotonic clocks, thread::sleep in try_send_timeout, interface enumeration, OS randomness (deterministic interposer)",
  "thread scheduling: real OS threads, but exactly one holds the baton; they yield only at Poll::poll, full-channel sends and sleeps",
];

#[derive(Clone, Debug, PartialEq, Eq)]
enum Item {
  Good { k: u32, v: Vec<u8> },
  BadCdr,
  BadRep,
  DisposeKey { k: u32 },
  DisposeKeyUndecodable,
  DisposeHashKnown { k: u32 },
  DisposeHashUnknown,
}

#[derive(Clone, Debug, PartialEq, Eq)]
enum Got {
  Value { k: u32, v: Vec<u8> },
  Dispose { k: u32 },
  Error,
}

#[derive(Clone, Copy, Debug, PartialEq, Eq)]
enum Form {
  Take,
  TakeNext,
  IntoIterator,
  AsyncStream,
  AsyncSampleStream,
  NoKeyTakeNext,
  NoKeyAsyncBare,
  NoKeyAsync,
  NoKeySimple,
  NoKeySimpleAsync,
}

pub fn run(_tier: &str, ctx: &mut Ctx) -> Check {
  e2::enter(ctx);
  let r = body();
  e2::leave(ctx);
  r
}

fn ch<R>(f: impl FnOnce(&mut simcore::choice::Chooser) -> R) -> R {
  e2::with(|st| f(&mut st.ctx.ch))
}

fn body() -> Check {
  let forms = [
    Form::Take,
    Form::TakeNext,
    Form::IntoIterator,
    Form::AsyncStream,
    Form::AsyncSampleStream,
    Form::NoKeyTakeNext,
    Form::NoKeyAsyncBare,
    Form::NoKeyAsync,
    Form::NoKeySimple,
    Form::NoKeySimpleAsync,
  ];
  let form = forms[ch(|c| c.index(forms.len()))];
  let with_key = matches!(
    form,
    Form::Take | Form::TakeNext | Form::IntoIterator | Form::AsyncStream | Form::AsyncSampleStream
  );
  let reliable = ch(|c| c.chance(2, 3));
  let n_writers = 1 + ch(|c| c.draw(2)) as usize;
  let q = qos(reliable, History::KeepAll, false);

  let dpw = new_participant(WNODE)?;
  let dpr = new_participant(RNODE)?;
  let kind = if with_key { TopicKind::WithKey } else { TopicKind::NoKey };
  simcore::set_node(WNODE);
  let tw = leak(dpw.create_topic("T".into(), "X".into(), &q, kind).map_err(|e| herr("topic", e))?);
  let pubr = leak(dpw.create_publisher(&q).map_err(|e| herr("publisher", e))?);
  let mut wguids: Vec<Guid> = vec![];
  let mut keep_wk: Leak<Vec<with_key::DataWriter<Msg>>> = leak(vec![]);
  let mut keep_nk: Leak<Vec<no_key::DataWriter<Blob>>> = leak(vec![]);
  for _ in 0..n_writers {
    if with_key {
      let w: with_key::DataWriter<Msg> = pubr.create_datawriter_cdr(&tw, None).map_err(|e| herr("writer", e))?;
      wguids.push(w.guid().to_bytes());
      keep_wk.push(w);
    } else {
      let w: no_key::DataWriter<Blob> = pubr.create_datawriter_no_key_cdr(&tw, None).map_err(|e| herr("writer", e))?;
      wguids.push(w.guid().to_bytes());
      keep_nk.push(w);
    }
  }
  simcore::set_node(RNODE);
  let tr = leak(dpr.create_topic("T".into(), "X".into(), &q, kind).map_err(|e| herr("topic", e))?);
  let sub = leak(dpr.create_subscriber(&q).map_err(|e| herr("subscriber", e))?);

  let mut rd = leak(match form {
    Form::Take | Form::TakeNext | Form::IntoIterator | Form::AsyncStream | Form::AsyncSampleStream => {
      Rd::Wk(sub.create_datareader_cdr(&tr, None).map_err(|e| herr("reader", e))?)
    }
    Form::NoKeyTakeNext | Form::NoKeyAsyncBare | Form::NoKeyAsync => Rd::Nk(sub.create_datareader_no_key_cdr(&tr, None).map_err(|e| herr("reader", e))?),
    Form::NoKeySimple | Form::NoKeySimpleAsync => Rd::NkSimple(
      sub
        .create_simple_datareader_no_key(&tr, None)
        .map_err(|e| herr("reader", e))?,
    ),
  });
  e2::log(&format!("cfg form={form:?} reliable={reliable} writers={n_writers}"));

  // ---- real discovery until the writers are matched with the reader -------------------
  // (the reader-side match is visible in the participant status events of dpr)
  let mut matched = 0usize;
  let ok = run_until_cond(DISCOVERY_BUDGET, 500 * MS, || {
    use rustdds::StatusEvented;
    while let Some(ev) = dpr.status_listener().try_recv_status() {
      if let rustdds::DomainParticipantStatusEvent::RemoteWriterMatched { remote_writer, .. } = ev {
        if wguids.contains(&remote_writer.to_bytes()) {
          matched += 1;
        }
      }
    }
    matched >= n_writers
  })?;
  if !ok {
    return Err(Violation::new(
      "HARNESS-ERROR/c09-no-match",
      format!("only {matched} of {n_writers} writers matched within the discovery budget"),
    ));
  }
  e2::run_for(SEC)?;
  stall_writer_node();

  // ---- the stream of changes ------------------------------------------------------------------
  let mut streams: Vec<Vec<Item>> = vec![];
  for wi in 0..n_writers {
    let n = 1 + ch(|c| c.draw(8)) as usize;
    let mut seen_keys: Vec<u32> = vec![];
    let mut items = vec![];
    for j in 0..n {
      let k = (wi as u32) * 1000 + ch(|c| c.draw(3)) as u32;
      let v = vec![wi as u8, j as u8, 0xee];
      let weights: [u64; 7] = if with_key {
        [
          8,
          3,
          2,
          2,
          2,
          if seen_keys.is_empty() { 0 } else { 2 },
          4,
        ]
      } else {
        // a dispose on a NO_KEY topic (K flag, the unit key decodes from anything) is no sample
        [8, 3, 3, 3, 0, 0, 0]
      };
      let it = match ch(|c| c.weighted(&weights)) {
        0 => {
          seen_keys.push(k);
          Item::Good { k, v }
        }
        1 => Item::BadCdr,
        2 => Item::BadRep,
        3 => {
          seen_keys.push(k);
          Item::DisposeKey { k }
        }
        4 => Item::DisposeKeyUndecodable,
        5 => Item::DisposeHashKnown {
          k: seen_keys[ch(|c| c.index(seen_keys.len()))],
        },
        _ => Item::DisposeHashUnknown,
      };
      items.push(it);
    }
    // sometimes a long run of changes that produce no sample (disposes of instances never seen), while the
    // application is busy elsewhere: whatever follows them must still come out
    if with_key && ch(|c| c.chance(1, 6)) {
      let at = ch(|c| c.index(items.len() + 1));
      let len = 12 + ch(|c| c.draw(40)) as usize;
      for _ in 0..len {
        items.insert(at, Item::DisposeHashUnknown);
      }
      e2::count("op.long_run_of_sampleless_changes");
    }
    streams.push(items);
  }
  let busy_application = ch(|c| c.chance(1, 2));
  let any_bad = streams.iter().flatten().any(|i| !matches!(i, Item::Good { .. } | Item::DisposeKey { .. } | Item::DisposeHashKnown { .. }));
  e2::log(&format!("streams {streams:?}"));

  // ---- deliver in order per writer, writers interleaved; take calls in between -------------------------
  let mut got: Vec<Got> = vec![];
  let mut calls = 0u64;
  let mut next: Vec<usize> = vec![0; n_writers];
  let mut stream_holder: Leak<Option<Pin<Box<dyn Stream<Item = Got>>>>> = leak(None);
  if matches!(form, Form::AsyncStream | Form::AsyncSampleStream | Form::NoKeyAsyncBare | Form::NoKeyAsync) {
    use futures::StreamExt;
    let wk = |x: Sample<Msg, u32>| match x {
      Sample::Value(m) => Got::Value { k: m.k, v: m.v },
      Sample::Dispose(k) => Got::Dispose { k },
    };
    match (std::mem::replace(&mut *rd, Rd::NkSimple(dummy_simple(&sub, &dpr)?)), form) {
      (Rd::Wk(r), Form::AsyncStream) => {
        *stream_holder = Some(Box::pin(r.async_bare_sample_stream().map(move |x| match x {
          Ok(s) => wk(s),
          Err(_) => Got::Error,
        })));
      }
      (Rd::Wk(r), _) => {
        *stream_holder = Some(Box::pin(r.async_sample_stream().map(move |x| match x {
          Ok(ds) => wk(ds.into_value()),
          Err(_) => Got::Error,
        })));
      }
      (Rd::Nk(r), Form::NoKeyAsyncBare) => {
        *stream_holder = Some(Box::pin(r.async_bare_sample_stream().map(|x| match x {
          Ok(b) => Got::Value { k: 0, v: b.v },
          Err(_) => Got::Error,
        })));
      }
      (Rd::Nk(r), _) => {
        *stream_holder = Some(Box::pin(r.async_sample_stream().map(|x| match x {
          Ok(ds) => Got::Value {
            k: 0,
            v: ds.into_value().v,
          },
          Err(_) => Got::Error,
        })));
      }
      _ => {}
    }
  }
  // the consumer of an async stream is a task: it is polled again only after its waker was invoked
  let woken = std::sync::Arc::new(WakeFlag(std::sync::atomic::AtomicBool::new(true)));
  loop {
    let pending: Vec<usize> = (0..n_writers).filter(|w| next[*w] < streams[*w].len()).collect();
    if pending.is_empty() {
      break;
    }
    let wi = pending[ch(|c| c.index(pending.len()))];
    let j = next[wi];
    next[wi] += 1;
    let sn = (j + 1) as i64;
    let g = wguids[wi];
    let sub_msg: Sub = match &streams[wi][j] {
      Item::Good { k, v } => {
        if with_key {
          data_sub(&g, sn, msg_payload(*k, v))
        } else {
          data_sub(&g, sn, blob_payload(v))
        }
      }
      Item::BadCdr => {
        // claims a long sequence, carries two bytes
        let mut p = vec![0x00, 0x01, 0x00, 0x00];
        if with_key {
          p.extend_from_slice(&7u32.to_le_bytes());
        }
        p.extend_from_slice(&1000u32.to_le_bytes());
        p.extend_from_slice(&[1, 2]);
        data_sub(&g, sn, p)
      }
      Item::BadRep => {
        let mut p = if with_key { msg_payload(1, &[1]) } else { blob_payload(&[1]) };
        p[0] = 0x7f;
        p[1] = 0x7f;
        data_sub(&g, sn, p)
      }
      Item::DisposeKey { k } => dispose_by_key_sub(&g, sn, key_payload(*k)),
      Item::DisposeKeyUndecodable => dispose_by_key_sub(&g, sn, vec![0x00, 0x01, 0x00, 0x00]),
      Item::DisposeHashKnown { k } => dispose_by_hash_sub(&g, sn, key_hash(*k)),
      Item::DisposeHashUnknown => dispose_by_hash_sub(&g, sn, [0xab; 16]),
    };
    let mut subs = vec![sub_msg];
    let last = next[wi] == streams[wi].len();
    if reliable && (last || ch(|c| c.chance(1, 3))) {
      subs.push(hb_sub(&g, 1, sn, sn as i32, true));
    }
    send_as(&g, subs, false, 100_000);
    e2::run_for(2 * MS)?;
    if !(busy_application && streams[wi].len() > 12) && ch(|c| c.chance(1, 3)) {
      drain(&form, &mut rd, &mut stream_holder, &mut got, &mut calls, 1 + ch(|c| c.draw(3)), 2, &woken)?;
    }
  }
  e2::run_for(50 * MS)?;
  // ---- final drain: every form must come to rest within a generous number of calls --------------------
  let total: usize = streams.iter().map(|s| s.len()).sum();
  drain(&form, &mut rd, &mut stream_holder, &mut got, &mut calls, 3 * total as u64 + 12, total + 2, &woken)?;
  e2::log(&format!("got {got:?} in {calls} calls"));

  // ---- oracle ------------------------------------------------------------------------------------------------
  let n_err = got.iter().filter(|g| **g == Got::Error).count();
  let n_bad = streams
    .iter()
    .flatten()
    .filter(|i| matches!(i, Item::BadCdr | Item::BadRep | Item::DisposeKeyUndecodable | Item::DisposeHashUnknown))
    .count();
  if n_err > n_bad {
    return Err(Violation::new(
      "C09/bad-change-reported-more-than-once",
      format!("{n_err} errors were returned for {n_bad} unintelligible changes: {got:?}"),
    ));
  }
  for wi in 0..n_writers {
    let expect: Vec<Got> = streams[wi]
      .iter()
      .filter_map(|i| match i {
        Item::Good { k, v } => Some(Got::Value {
          k: if with_key { *k } else { 0 },
          v: v.clone(),
        }),
        Item::DisposeKey { k } | Item::DisposeHashKnown { k } if with_key => Some(Got::Dispose { k: *k }),
        _ => None,
      })
      .collect();
    let mine: Vec<Got> = got
      .iter()
      .filter(|g| match g {
        Got::Value { v, .. } => v[0] as usize == wi,
        Got::Dispose { k } => (*k / 1000) as usize == wi,
        Got::Error => false,
      })
      .cloned()
      .collect();
    if mine != expect {
      // which clause?
      let mut dedup = mine.clone();
      dedup.dedup();
      let class = if mine.len() > expect.len() {
        "C09/change-delivered-more-than-once"
      } else if mine.len() < expect.len() {
        "C09/intelligible-change-not-delivered"
      } else {
        "C09/changes-delivered-out-of-order"
      };
      return Err(Violation::new(
        class,
        format!(
          "writer {wi} ({form:?}, reliable={reliable}): sent {:?}; expected deliveries {expect:?}; got {mine:?}",
          streams[wi]
        ),
      ));
    }
  }
  let delivered = got.iter().filter(|g| **g != Got::Error).count();
  e2::with(|st| {
    st.ctx.nontrivial = delivered >= 1 && any_bad;
    st.ctx.add("changes_delivered", delivered as u64);
    st.ctx.add("errors_reported", n_err as u64);
    if any_bad {
      st.ctx.count("fault.unintelligible_change_injected");
    }
    let mut f = simcore::digest::Fnv::new();
    f.str(&format!("{form:?}{reliable}{streams:?}{got:?}"));
    st.ctx.state(f.get());
  });
  // no teardown: every entity is leaked on purpose (see e2rig::Leak)
  Ok(())
}

fn dummy_simple(
  sub: &rustdds::Subscriber,
  dpr: &rustdds::DomainParticipant,
) -> Result<no_key::SimpleDataReader<Blob, CDRDeserializerAdapter<Blob>>, Violation> {
  let q = qos(false, History::KeepLast { depth: 1 }, false);
  let t = dpr
    .create_topic("unused".into(), "U".into(), &q, TopicKind::NoKey)
    .map_err(|e| herr("topic", e))?;
  sub.create_simple_datareader_no_key(&t, None).map_err(|e| herr("reader", e))
}

#[allow(clippy::type_complexity)]
fn drain(
  form: &Form,
  rd: &mut Rd,
  stream: &mut Option<Pin<Box<dyn Stream<Item = Got>>>>,
  got: &mut Vec<Got>,
  calls: &mut u64,
  max_calls: u64,
  max_idle: usize,
  woken: &std::sync::Arc<WakeFlag>,
) -> Check {
  use std::sync::atomic::Ordering;
  let waker = futures::task::waker(woken.clone());
  let mut cx = Context::from_waker(&waker);
  let is_task = matches!(
    form,
    Form::AsyncStream | Form::AsyncSampleStream | Form::NoKeyAsyncBare | Form::NoKeyAsync | Form::NoKeySimpleAsync
  );
  let mut idle = 0;
  for _ in 0..max_calls {
    if is_task {
      // an executor polls a task that was woken, and goes on polling while it makes progress
      if !woken.0.swap(false, Ordering::SeqCst) {
        break;
      }
      loop {
        *calls += 1;
        let before = got.len();
        let pending = if let Some(s) = stream.as_mut() {
          match s.as_mut().poll_next(&mut cx) {
            Poll::Ready(Some(g)) => {
              got.push(g);
              false
            }
            Poll::Ready(None) => true,
            Poll::Pending => true,
          }
        } else {
          rd.drain_once(form, got, &mut cx)
        };
        if pending {
          break;
        }
        if got.len() == before {
          // Ready without an item cannot happen for the streams above
          break;
        }
        if *calls > 10_000 {
          return Err(Violation::new("C09/stream-never-pending", "the stream stayed Ready for 10000 polls"));
        }
      }
      continue;
    }
    *calls += 1;
    let before = got.len();
    rd.drain_once(form, got, &mut cx);
    if got.len() == before {
      idle += 1;
      if idle >= max_idle {
        break;
      }
    } else {
      idle = 0;
    }
  }
  Ok(())
}

struct WakeFlag(std::sync::atomic::AtomicBool);
impl futures::task::ArcWake for WakeFlag {
  fn wake_by_ref(arc_self: &std::sync::Arc<Self>) {
    arc_self.0.store(true, std::sync::atomic::Ordering::SeqCst);
  }
}

enum Rd {
  Wk(with_key::DataReader<Msg>),
  Nk(no_key::DataReader<Blob>),
  NkSimple(no_key::SimpleDataReader<Blob, CDRDeserializerAdapter<Blob>>),
}

impl Rd {
  /// returns true if an async form answered Pending
  fn drain_once(&mut self, form: &Form, got: &mut Vec<Got>, cx: &mut Context<'_>) -> bool {
    let mut pending = false;
    match (self, form) {
      (Rd::Wk(r), Form::Take) => match r.take(3, ReadCondition::any()) {
        Ok(v) => {
          for s in v {
            match s.into_value() {
              Sample::Value(m) => got.push(Got::Value { k: m.k, v: m.v }),
              Sample::Dispose(k) => got.push(Got::Dispose { k }),
            }
          }
        }
        Err(_) => got.push(Got::Error),
      },
      (Rd::Wk(r), Form::TakeNext) => match r.take_next_sample() {
        Ok(Some(s)) => match s.into_value() {
          Sample::Value(m) => got.push(Got::Value { k: m.k, v: m.v }),
          Sample::Dispose(k) => got.push(Got::Dispose { k }),
        },
        Ok(None) => {}
        Err(_) => got.push(Got::Error),
      },
      (Rd::Wk(r), Form::IntoIterator) => match r.into_iterator() {
        Ok(it) => {
          for s in it {
            match s {
              Sample::Value(m) => got.push(Got::Value { k: m.k, v: m.v }),
              Sample::Dispose(k) => got.push(Got::Dispose { k }),
            }
          }
        }
        Err(_) => got.push(Got::Error),
      },
      (Rd::Nk(r), Form::NoKeyTakeNext) => match r.take_next_sample() {
        Ok(Some(s)) => got.push(Got::Value {
          k: 0,
          v: s.into_value().v,
        }),
        Ok(None) => {}
        Err(_) => got.push(Got::Error),
      },
      (Rd::NkSimple(r), Form::NoKeySimple) => match r.try_take_one() {
        Ok(Some(d)) => got.push(Got::Value {
          k: 0,
          v: d.into_value().v,
        }),
        Ok(None) => {}
        Err(_) => got.push(Got::Error),
      },
      (Rd::NkSimple(r), Form::NoKeySimpleAsync) => {
        let mut st = Box::pin(r.as_async_stream());
        match st.as_mut().poll_next(cx) {
          Poll::Ready(Some(Ok(d))) => got.push(Got::Value {
            k: 0,
            v: d.into_value().v,
          }),
          Poll::Ready(Some(Err(_))) => got.push(Got::Error),
          Poll::Ready(None) | Poll::Pending => pending = true,
        }
      }
      _ => {}
    }
    pending
  }
}
