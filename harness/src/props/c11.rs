//! C11 — matched-endpoint sets and their status counts track discovery exactly.
//!
//! Engine E2: one real DomainParticipant (A) with local readers and writers on
//! two topics; two scripted remote participants announce, re-announce and
//! dispose endpoints (compatible and incompatible QoS, on either topic), are
//! disposed, fall silent beyond their lease and reappear.  After every step
//! the matched sets reconstructed from A's status events are compared with a
//! model of what is currently announced.

use std::{
  collections::{BTreeMap, BTreeSet},
  net::{Ipv4Addr, SocketAddr, SocketAddrV4},
};

use rustdds::{
  policy::History,
  verif::pl::{self, Lease},
  with_key, DataReaderStatus, DataWriterStatus, DomainParticipantStatusEvent, RTPSEntity, StatusEvented, TopicKind,
};

use super::{c09::E2_REAL, c12::C12_STUB, Spec};
use crate::{
  ctx::{Check, Ctx, Violation},
  e2::{self, MS, SEC},
  e2rig::*,
  wire::{self, Guid, Sub},
};

pub fn spec() -> Spec {
  Spec {
    id: "C11",
    engine: "E2 participant (one real DomainParticipant with 2-4 local endpoints observed through their public status events; two scripted remote participants drive discovery over the simulated network)",
    level: "exploration",
    rule: "one case = one seeded run of 6-30 discovery events over two scripted participants with up to 3 writers and 3 readers each (reliable or best-effort, Volatile or TransientLocal, on topic T or U): SEDP announce, re-announce (same QoS), endpoint dispose, participant dispose, silence beyond the 1 s lease (time-out) and reappearance, late creation and deletion of local endpoints. After every event and a 60 ms settle: for every local reader/writer the set reconstructed from its matched events equals {announced by a known participant, same topic, request/offered compatible}; every matched event carries current = size of the set and a total that never decreases and grows by the positive changes; an incompatible endpoint produced an incompatible-QoS event and no match; a re-announcement changes nothing. non-trivial = at least 3 matched-set changes; distinct = fingerprint of the event sequence and the sets",
    quick_runs: 4_000,
    quick_secs: 150.0,
    thorough_runs: 200_000,
    thorough_secs: 1800.0,
    batch: 1,
    per_run_timeout_s: 60.0,
    real: E2_REAL,
    stub: C12_STUB,
    assumptions: &[
      "remote endpoints keep the QoS they were first announced with (the property's premise)",
      "endpoint status channels hold 4 events: events are collected every millisecond after each discovery event, and one event never changes more than 3 endpoints of one local endpoint's set",
      "compatibility in the model covers reliability and durability only (the general request/offered rule is C10's subject)",
    ],
  }
}

const ANODE: u32 = 1;
const SPDP_W: wire::Eid = [0x00, 0x01, 0x00, 0xc2];
const SPDP_R: wire::Eid = [0x00, 0x01, 0x00, 0xc7];
const PUB_W: wire::Eid = [0x00, 0x00, 0x03, 0xc2];
const PUB_R: wire::Eid = [0x00, 0x00, 0x03, 0xc7];
const SUB_W: wire::Eid = [0x00, 0x00, 0x04, 0xc2];
const SUB_R: wire::Eid = [0x00, 0x00, 0x04, 0xc7];
const LEASE_MS: i64 = 1000;

fn v(class: &str, d: String) -> Violation {
  Violation::new(class, d)
}

fn ch<R>(f: impl FnOnce(&mut simcore::choice::Chooser) -> R) -> R {
  e2::with(|st| f(&mut st.ctx.ch))
}

pub fn run(_tier: &str, ctx: &mut Ctx) -> Check {
  e2::enter(ctx);
  let r = body();
  e2::leave(ctx);
  r
}

fn addr(node: u32, port: u16) -> SocketAddr {
  SocketAddr::V4(SocketAddrV4::new(simcore::node_ip(node), port))
}

fn mc() -> SocketAddr {
  SocketAddr::V4(SocketAddrV4::new(Ipv4Addr::new(239, 255, 0, 1), 7400))
}

#[derive(Clone, Copy, Debug, PartialEq, Eq)]
struct Q {
  reliable: bool,
  tl: bool,
}

impl Q {
  fn qos(&self) -> rustdds::QosPolicies {
    qos(self.reliable, History::KeepAll, self.tl)
  }
  /// offered (writer) satisfies requested (reader)
  fn satisfies(offered: Q, requested: Q) -> bool {
    (offered.reliable || !requested.reliable) && (offered.tl || !requested.tl)
  }
}

#[derive(Clone, Copy, Debug, PartialEq, Eq)]
enum PState {
  Unknown,
  Known,
  TimedOut,
}

struct REndpoint {
  guid: Guid,
  is_writer: bool,
  topic: &'static str,
  q: Q,
  /// A has been told about it and has not been told to forget it
  announced: bool,
}

struct Peer {
  name: &'static str,
  node: u32,
  prefix: [u8; 12],
  be: bool,
  spdp_sn: i64,
  pub_sn: i64,
  sub_sn: i64,
  state: PState,
  /// keeps announcing itself every 400 ms
  talking: bool,
  next_announce: u64,
  eps: Vec<REndpoint>,
}

impl Peer {
  fn announce(&mut self) {
    self.spdp_sn += 1;
    let payload = pl::spdp_payload(
      self.prefix,
      Lease::Millis(LEASE_MS),
      &[addr(self.node, 7410)],
      &[mc()],
      &[addr(self.node, 7411)],
      &[],
      self.be,
    );
    let sub = Sub::Data {
      reader: SPDP_R,
      writer: SPDP_W,
      sn: self.spdp_sn,
      inline_qos: None,
      has_data: true,
      has_key: false,
      payload: Some(payload),
    };
    e2::scripted_send(self.node, mc(), wire::encode_msg(&self.prefix, &[sub], self.be), 100_000);
  }

  fn dispose_self(&mut self) {
    self.spdp_sn += 1;
    let sub = Sub::Data {
      reader: SPDP_R,
      writer: SPDP_W,
      sn: self.spdp_sn,
      inline_qos: Some(vec![status_info(true, true)]),
      has_data: false,
      has_key: true,
      payload: Some(pl::spdp_key_payload(self.prefix, self.be)),
    };
    e2::scripted_send(self.node, addr(ANODE, 7410), wire::encode_msg(&self.prefix, &[sub], self.be), 100_000);
  }

  fn sedp(&mut self, ei: usize, dispose: bool) {
    let e = &self.eps[ei];
    let (w, r, sn) = if e.is_writer {
      self.pub_sn += 1;
      (PUB_W, PUB_R, self.pub_sn)
    } else {
      self.sub_sn += 1;
      (SUB_W, SUB_R, self.sub_sn)
    };
    let data = if dispose {
      Sub::Data {
        reader: r,
        writer: w,
        sn,
        inline_qos: Some(vec![status_info(true, true)]),
        has_data: false,
        has_key: true,
        payload: Some(pl::endpoint_key_payload(e.guid, self.be)),
      }
    } else {
      let payload = if e.is_writer {
        let d = rustdds::verif::discovered_writer(e.guid, e.topic, "Msg", &e.q.qos(), &[addr(self.node, 7411)], &[]);
        pl::publication_payload(&d, self.be)
      } else {
        let d = rustdds::verif::discovered_reader(e.guid, e.topic, "Msg", &e.q.qos(), &[addr(self.node, 7411)], &[]);
        pl::subscription_payload(&d, self.be)
      };
      Sub::Data {
        reader: r,
        writer: w,
        sn,
        inline_qos: None,
        has_data: true,
        has_key: false,
        payload: Some(payload),
      }
    };
    let hb = Sub::Heartbeat {
      reader: r,
      writer: w,
      first: sn, // older announcements are not available any more
      last: sn,
      count: sn as i32,
      final_flag: true,
      liveliness: false,
    };
    e2::scripted_send(self.node, addr(ANODE, 7410), wire::encode_msg(&self.prefix, &[data, hb], self.be), 100_000);
  }
}

struct LEndpoint {
  name: String,
  guid: Guid,
  is_writer: bool,
  topic: &'static str,
  q: Q,
  rd: Option<Leak<with_key::DataReader<Msg>>>,
  wr: Option<Leak<with_key::DataWriter<Msg>>>,
  /// the set reconstructed from the matched events
  set: BTreeSet<Guid>,
  total: i32,
  /// remote endpoints for which an incompatible-QoS event was seen
  incompatible_seen: BTreeSet<Guid>,
  changes: u64,
  /// created when more than 3 matches were due at once: its status channel (4 events) cannot tell
  unobservable: bool,
}

struct World {
  dpa: Leak<rustdds::DomainParticipant>,
  topics: BTreeMap<&'static str, Leak<rustdds::Topic>>,
  sub: Leak<rustdds::Subscriber>,
  publ: Leak<rustdds::Publisher>,
  locals: Vec<LEndpoint>,
  peers: Vec<Peer>,
  known_by_a: BTreeSet<[u8; 12]>,
  fp: simcore::digest::Fnv,
}

fn brief(g: &Guid) -> String {
  format!("{:02x}{:02x}.{:02x}", g[2], g[14], g[15])
}

impl World {
  fn pass(&mut self, d: u64, fine: bool) -> Check {
    let end = simcore::now_ns() + d;
    while simcore::now_ns() < end {
      let now = simcore::now_ns();
      for p in self.peers.iter_mut() {
        if p.talking && now >= p.next_announce {
          p.announce();
          p.next_announce = now + 400 * MS;
        }
      }
      let slice = (end - now).min(if fine { MS } else { 5 * MS });
      e2::run_for(slice)?;
      let _ = e2::drain_scripted_inbox();
      self.collect()?;
    }
    Ok(())
  }

  fn collect(&mut self) -> Check {
    while let Some(ev) = self.dpa.status_listener().try_recv_status() {
      match ev {
        DomainParticipantStatusEvent::ParticipantDiscovered { dpd } => {
          let pfx: [u8; 12] = dpd.guid.prefix.as_ref().try_into().unwrap();
          self.known_by_a.insert(pfx);
        }
        DomainParticipantStatusEvent::ParticipantLost { id, .. } => {
          let pfx: [u8; 12] = id.as_ref().try_into().unwrap();
          self.known_by_a.remove(&pfx);
        }
        _ => {}
      }
    }
    for l in self.locals.iter_mut() {
      if l.unobservable {
        if let Some(rd) = l.rd.as_ref() {
          while rd.try_recv_status().is_some() {}
        }
        if let Some(wr) = l.wr.as_ref() {
          while wr.try_recv_status().is_some() {}
        }
        continue;
      }
      let mut evs: Vec<(i32, i32, i32, Guid)> = vec![]; // (total, current, change, remote)
      let mut incompat: Vec<Guid> = vec![];
      if let Some(rd) = l.rd.as_ref() {
        while let Some(st) = rd.try_recv_status() {
          match st {
            DataReaderStatus::SubscriptionMatched { total, current, writer } => {
              evs.push((total.count(), current.count(), current.count_change(), writer.to_bytes()));
              if total.count_change() != current.count_change().max(0) {
                return Err(v(
                  "C11/total-change-inconsistent",
                  format!("{}: matched event with total change {} and current change {}", l.name, total.count_change(), current.count_change()),
                ));
              }
            }
            DataReaderStatus::RequestedIncompatibleQos { writer, .. } => incompat.push(writer.to_bytes()),
            _ => {}
          }
        }
      }
      if let Some(wr) = l.wr.as_ref() {
        while let Some(st) = wr.try_recv_status() {
          match st {
            DataWriterStatus::PublicationMatched { total, current, reader } => {
              evs.push((total.count(), current.count(), current.count_change(), reader.to_bytes()));
              if total.count_change() != current.count_change().max(0) {
                return Err(v(
                  "C11/total-change-inconsistent",
                  format!("{}: matched event with total change {} and current change {}", l.name, total.count_change(), current.count_change()),
                ));
              }
            }
            DataWriterStatus::OfferedIncompatibleQos { reader, .. } => incompat.push(reader.to_bytes()),
            _ => {}
          }
        }
      }
      // the status channel of an endpoint holds 4 events; when 4 or more were waiting, later ones
      // may have been dropped, and the endpoint's set cannot be reconstructed any more
      let n_events = evs.len() + incompat.len();
      for g in incompat {
        e2::log(&format!("{}: incompatible QoS with {}", l.name, brief(&g)));
        l.incompatible_seen.insert(g);
      }
      if n_events >= 4 {
        e2::log(&format!("{}: {n_events} status events at once, its channel may have overflowed: not observed any further", l.name));
        e2::count("probe.status_channel_possibly_overflowed");
        l.unobservable = true;
        continue;
      }
      for (total, current, change, g) in evs {
        e2::log(&format!("{}: matched event {} change {change:+} current {current} total {total}", l.name, brief(&g)));
        self.fp.str(&l.name).u64(change as u64).u64(current as u64);
        l.changes += 1;
        match change {
          1 => {
            if !l.set.insert(g) {
              return Err(v(
                "C11/matched-twice",
                format!("{}: a match with {} was reported although it was already in the matched set", l.name, brief(&g)),
              ));
            }
          }
          -1 => {
            if !l.set.remove(&g) {
              return Err(v(
                "C11/unmatched-what-was-not-matched",
                format!("{}: an unmatch of {} was reported, which was not in the matched set", l.name, brief(&g)),
              ));
            }
          }
          0 => {
            return Err(v(
              "C11/matched-event-without-change",
              format!("{}: a matched event for {} with no change of the set (current {current})", l.name, brief(&g)),
            ))
          }
          other => {
            return Err(v(
              "C11/matched-event-changes-several",
              format!("{}: one matched event with change {other}", l.name),
            ))
          }
        }
        if current != l.set.len() as i32 {
          return Err(v(
            "C11/current-count-wrong",
            format!(
              "{}: matched event for {} carries current = {current}, the matched set has {} members {:?}",
              l.name,
              brief(&g),
              l.set.len(),
              l.set.iter().map(brief).collect::<Vec<_>>()
            ),
          ));
        }
        if total < l.total {
          return Err(v(
            "C11/total-count-decreased",
            format!("{}: total went from {} to {total}", l.name, l.total),
          ));
        }
        if total != l.total + change.max(0) {
          return Err(v(
            "C11/total-count-wrong",
            format!("{}: total went from {} to {total} with a change of {change:+}", l.name, l.total),
          ));
        }
        l.total = total;
      }
    }
    Ok(())
  }

  /// the model: what every local endpoint must be matched with right now
  fn expected(&self, l: &LEndpoint) -> (BTreeSet<Guid>, BTreeSet<Guid>) {
    let mut m = BTreeSet::new();
    let mut inc = BTreeSet::new();
    // the endpoints of the own participant are discovered like any others
    for o in &self.locals {
      if (o.rd.is_none() && o.wr.is_none()) || o.topic != l.topic || o.is_writer == l.is_writer {
        continue;
      }
      let ok = if l.is_writer { Q::satisfies(l.q, o.q) } else { Q::satisfies(o.q, l.q) };
      if ok {
        m.insert(o.guid);
      } else {
        inc.insert(o.guid);
      }
    }
    for p in &self.peers {
      for e in &p.eps {
        if !e.announced || e.topic != l.topic || e.is_writer == l.is_writer {
          continue;
        }
        let ok = if l.is_writer { Q::satisfies(l.q, e.q) } else { Q::satisfies(e.q, l.q) };
        if ok {
          if p.state == PState::Known {
            m.insert(e.guid);
          }
        } else {
          inc.insert(e.guid);
        }
      }
    }
    (m, inc)
  }

  fn compare(&self, after: &str, just_announced: Option<Guid>) -> Check {
    for l in &self.locals {
      if (l.rd.is_none() && l.wr.is_none()) || l.unobservable {
        continue;
      }
      let (m, inc) = self.expected(l);
      if l.set != m {
        let extra: Vec<String> = l.set.difference(&m).map(brief).collect();
        let missing: Vec<String> = m.difference(&l.set).map(brief).collect();
        return Err(v(
          if !extra.is_empty() {
            "C11/matched-with-endpoint-not-announced-or-incompatible"
          } else {
            "C11/announced-compatible-endpoint-not-matched"
          },
          format!(
            "after '{after}': {} ({:?} on {}) is matched with {:?}; currently announced and compatible: {:?} (extra {extra:?}, missing {missing:?})",
            l.name,
            l.q,
            l.topic,
            l.set.iter().map(brief).collect::<Vec<_>>(),
            m.iter().map(brief).collect::<Vec<_>>()
          ),
        ));
      }
      if let Some(g) = just_announced {
        if inc.contains(&g) && !l.incompatible_seen.contains(&g) {
          return Err(v(
            "C11/incompatible-endpoint-not-reported",
            format!("after '{after}': {} ({:?}) was sent no incompatible-QoS event for {}", l.name, l.q, brief(&g)),
          ));
        }
      }
      for g in &inc {
        if l.set.contains(g) {
          return Err(v(
            "C11/incompatible-endpoint-matched",
            format!("after '{after}': {} is matched with the incompatible {}", l.name, brief(g)),
          ));
        }
      }
    }
    Ok(())
  }

  fn create_local(&mut self, is_writer: bool, topic: &'static str, q: Q) -> Check {
    simcore::set_node(ANODE);
    let t = self.topics.get(topic).unwrap();
    let idx = self.locals.len();
    let (guid, rd, wr) = if is_writer {
      let w: with_key::DataWriter<Msg> = self.publ.create_datawriter_cdr(t, Some(q.qos())).map_err(|e| herr("writer", e))?;
      (w.guid().to_bytes(), None, Some(leak(w)))
    } else {
      let r: with_key::DataReader<Msg> = self.sub.create_datareader_cdr(t, Some(q.qos())).map_err(|e| herr("reader", e))?;
      (r.guid().to_bytes(), Some(leak(r)), None)
    };
    let name = format!("local {}{idx}", if is_writer { "writer" } else { "reader" });
    e2::log(&format!("create {name} on {topic} {q:?}"));
    self.locals.push(LEndpoint {
      name,
      guid,
      is_writer,
      topic,
      q,
      rd,
      wr,
      set: BTreeSet::new(),
      total: 0,
      incompatible_seen: BTreeSet::new(),
      changes: 0,
      unobservable: false,
    });
    let due = self.expected(&self.locals[idx]).0.len();
    if due > 3 {
      self.locals[idx].unobservable = true;
      e2::count("probe.local_endpoint_with_more_than_3_matches_at_creation");
    }
    Ok(())
  }
}

fn body() -> Check {
  let dpa = new_participant(ANODE)?;
  simcore::set_node(ANODE);
  let tq = qos(true, History::KeepAll, false);
  let mut topics = BTreeMap::new();
  for name in ["T", "U"] {
    topics.insert(
      name,
      leak(
        dpa
          .create_topic(name.into(), "Msg".into(), &tq, TopicKind::WithKey)
          .map_err(|e| herr("topic", e))?,
      ),
    );
  }
  let sub = leak(dpa.create_subscriber(&tq).map_err(|e| herr("subscriber", e))?);
  let publ = leak(dpa.create_publisher(&tq).map_err(|e| herr("publisher", e))?);
  e2::with(|st| {
    st.scripted.insert(3);
    st.scripted.insert(4);
  });
  let mk_peer = |name: &'static str, node: u32, tag: u8| -> Peer {
    let prefix = [0x01, 0x12, tag, tag, tag, tag, 0x10, 0x20, 0x30, 0x40, 0x50, tag];
    let n_w = 1 + ch(|c| c.draw(3)) as u8;
    let n_r = 1 + ch(|c| c.draw(3)) as u8;
    let mut eps = vec![];
    for i in 0..n_w + n_r {
      let is_writer = i < n_w;
      let q = Q {
        reliable: ch(|c| c.chance(2, 3)),
        tl: ch(|c| c.chance(1, 3)),
      };
      let topic = if ch(|c| c.chance(1, 4)) { "U" } else { "T" };
      eps.push(REndpoint {
        guid: wire::guid(prefix, [0, 0, i + 1, if is_writer { 0x02 } else { 0x07 }]),
        is_writer,
        topic,
        q,
        announced: false,
      });
    }
    Peer {
      name,
      node,
      prefix,
      be: ch(|c| c.flag()),
      spdp_sn: 0,
      pub_sn: 0,
      sub_sn: 0,
      state: PState::Unknown,
      talking: false,
      next_announce: 0,
      eps,
    }
  };
  let peers = vec![mk_peer("P", 3, 0xb0), mk_peer("Q", 4, 0xc0)];
  let mut w = World {
    dpa,
    topics,
    sub,
    publ,
    locals: vec![],
    peers,
    known_by_a: BTreeSet::new(),
    fp: simcore::digest::Fnv::new(),
  };
  // local endpoints: a reader and a writer on T, more may come later
  let lq = |c: &mut simcore::choice::Chooser| Q {
    reliable: c.chance(2, 3),
    tl: c.chance(1, 3),
  };
  let q1 = ch(lq);
  w.create_local(false, "T", q1)?;
  let q2 = ch(lq);
  w.create_local(true, "T", q2)?;
  for _ in 0..20 {
    e2::run_for(5 * MS)?;
    while w.dpa.status_listener().try_recv_status().is_some() {}
  }
  for p in &w.peers {
    e2::log(&format!(
      "{}: {:?}",
      p.name,
      p.eps.iter().map(|e| format!("{} {} {} {:?}", brief(&e.guid), if e.is_writer { "writer" } else { "reader" }, e.topic, e.q)).collect::<Vec<_>>()
    ));
  }

  let steps = 6 + ch(|c| c.draw(25));
  let mut ops = String::new();
  for _ in 0..steps {
    let pi = ch(|c| c.index(2));
    let state = w.peers[pi].state;
    let name = w.peers[pi].name;
    let n_eps = w.peers[pi].eps.len();
    // what can happen now
    let weights: [u64; 8] = match state {
      PState::Unknown => [6, 0, 0, 0, 0, 0, 1, 1],
      PState::Known => [0, 8, 3, 3, 1, 2, 1, 1],
      PState::TimedOut => [4, 0, 0, 0, 0, 0, 1, 1],
    };
    let op = ch(|c| c.weighted(&weights));
    let mut just_announced: Option<Guid> = None;
    let what: String = match op {
      0 => {
        // (re)appear
        let p = &mut w.peers[pi];
        p.talking = true;
        p.next_announce = 0;
        let was = p.state;
        p.state = PState::Known;
        ops.push('A');
        format!("{name} appears ({was:?})")
      }
      1 => {
        // announce an endpoint that is not announced yet
        let cand: Vec<usize> = (0..n_eps).filter(|i| !w.peers[pi].eps[*i].announced).collect();
        if cand.is_empty() {
          continue;
        }
        let ei = cand[ch(|c| c.index(cand.len()))];
        w.peers[pi].sedp(ei, false);
        w.peers[pi].eps[ei].announced = true;
        just_announced = Some(w.peers[pi].eps[ei].guid);
        ops.push('e');
        format!("{name} announces {}", brief(&w.peers[pi].eps[ei].guid))
      }
      2 => {
        // re-announce, same QoS
        let cand: Vec<usize> = (0..n_eps).filter(|i| w.peers[pi].eps[*i].announced).collect();
        if cand.is_empty() {
          continue;
        }
        let ei = cand[ch(|c| c.index(cand.len()))];
        w.peers[pi].sedp(ei, false);
        e2::count("fault.duplicate");
        ops.push('r');
        format!("{name} re-announces {}", brief(&w.peers[pi].eps[ei].guid))
      }
      3 => {
        let cand: Vec<usize> = (0..n_eps).filter(|i| w.peers[pi].eps[*i].announced).collect();
        if cand.is_empty() {
          continue;
        }
        let ei = cand[ch(|c| c.index(cand.len()))];
        w.peers[pi].sedp(ei, true);
        w.peers[pi].eps[ei].announced = false;
        ops.push('d');
        format!("{name} disposes {}", brief(&w.peers[pi].eps[ei].guid))
      }
      4 => {
        // the participant leaves
        let p = &mut w.peers[pi];
        p.dispose_self();
        p.talking = false;
        p.state = PState::Unknown;
        for e in p.eps.iter_mut() {
          e.announced = false;
        }
        ops.push('D');
        format!("{name} disposes itself")
      }
      5 => {
        // silence beyond the lease: the participant times out, what it announced is parked
        let p = &mut w.peers[pi];
        p.talking = false;
        p.state = PState::TimedOut;
        e2::count("fault.silence_beyond_lease");
        ops.push('S');
        format!("{name} falls silent")
      }
      6 => {
        if w.locals.len() >= 4 {
          continue;
        }
        let is_writer = ch(|c| c.flag());
        let topic = if ch(|c| c.chance(1, 3)) { "U" } else { "T" };
        let q = ch(lq);
        w.create_local(is_writer, topic, q)?;
        ops.push('L');
        "a local endpoint is created".to_string()
      }
      _ => {
        let cand: Vec<usize> = (0..w.locals.len()).filter(|i| w.locals[*i].rd.is_some() || w.locals[*i].wr.is_some()).collect();
        if cand.len() <= 1 {
          continue;
        }
        let li = cand[ch(|c| c.index(cand.len()))];
        simcore::set_node(ANODE);
        e2::log(&format!("delete {}", w.locals[li].name));
        if let Some(r) = w.locals[li].rd.take() {
          r.delete();
        }
        if let Some(x) = w.locals[li].wr.take() {
          x.delete();
        }
        ops.push('X');
        "a local endpoint is deleted".to_string()
      }
    };
    e2::log(&format!("event: {what}"));
    // settle: a time-out needs the lease and a clean-up tick
    if op == 5 {
      w.pass(LEASE_MS as u64 * MS + 2 * SEC + 200 * MS, false)?;
    } else {
      w.pass(60 * MS, true)?;
    }
    // the participant must have arrived at the state the model assumes
    for p in &w.peers {
      let known = w.known_by_a.contains(&p.prefix);
      if known != (p.state == PState::Known) {
        return Err(v(
          "HARNESS-ERROR/c11-participant-state",
          format!("after '{what}': A {} {}, the model has it {:?}", if known { "knows" } else { "does not know" }, p.name, p.state),
        ));
      }
    }
    w.compare(&what, just_announced)?;
  }
  // incompatible endpoints were reported as such
  for l in &w.locals {
    if l.rd.is_none() && l.wr.is_none() {
      continue;
    }
    let (_, inc) = w.expected(l);
    for g in inc {
      if !l.incompatible_seen.contains(&g) {
        // only owed if the endpoint was announced while the local endpoint existed; a local endpoint
        // created later is told through its first status events, which may precede our listener
        e2::count("probe.incompatible_not_reported_to_late_endpoint");
      }
    }
  }
  let changes: u64 = w.locals.iter().map(|l| l.changes).sum();
  let mut fp = std::mem::replace(&mut w.fp, simcore::digest::Fnv::new());
  e2::with(|st| {
    st.ctx.nontrivial = changes >= 3;
    st.ctx.add("matched_set_changes", changes);
    fp.str(&ops);
    st.ctx.state(fp.get());
  });
  Ok(())
}
