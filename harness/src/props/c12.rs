//! C12 — a silent participant is dropped after its lease, a live one never.
//!
//! Engine E2: one real DomainParticipant (A) with a reader and a writer; two
//! scripted remote participants speak SPDP/SEDP on the simulated network with
//! payloads produced by RustDDS' own serialisers.  B follows a seed-chosen
//! pattern of announcements, duplicates, silences around its lease, disposes
//! and reappearances; C announces steadily and must never be lost.  A's view
//! is read through the public status events only.

use std::net::{Ipv4Addr, SocketAddr, SocketAddrV4};

use rustdds::{
  policy::History,
  verif::pl::{self, Lease},
  with_key, DataReaderStatus, DataWriterStatus, DomainParticipantStatusEvent, LostReason, RTPSEntity, StatusEvented,
  TopicKind,
};

use super::{
  c09::E2_REAL,
  Spec,
};
use crate::{
  ctx::{Check, Ctx, Violation},
  e2::{self, MS, SEC},
  e2rig::*,
  wire::{self, Guid, Sub},
};

pub fn spec() -> Spec {
  Spec {
    id: "C12",
    engine: "E2 participant (one real DomainParticipant observed through its public status events; two scripted remote participants announce themselves over the simulated network)",
    level: "exploration",
    rule: "one case = one seeded run: participant B advertises a lease from {absent, 500 ms, 1 s, 3 s, 10 s, infinite} and follows a seed-chosen sequence of {fresh announcement, re-sent announcement (same sequence number), silence of 0.1/0.5/0.9/1.2 x lease or lease + 2.5 s or 3 x lease, dispose, SEDP announcement of a writer and a reader} at a seed-chosen phase of the 2 s clean-up tick, in either byte order, to the multicast or the unicast locator; participant C announces every second with a 3 s lease throughout. Oracle after every 10 ms slice: a Timeout loss only when no announcement had arrived for longer than the advertised lease (RTPS default 100 s when absent), a loss at the latest one clean-up period (2 s) after the lease ran out, a dispose reported at once as Disposed, first announcement and reappearance reported as discovered, endpoints unmatched with the loss and matched again when a timed-out participant reappears; C never lost. non-trivial = at least one loss or 3 announcements; distinct = fingerprint of the op sequence and the events seen",
    quick_runs: 3_000,
    quick_secs: 150.0,
    thorough_runs: 150_000,
    thorough_secs: 1800.0,
    batch: 1,
    per_run_timeout_s: 60.0,
    real: E2_REAL,
    stub: C12_STUB,
    assumptions: &[
      "signs of life are SPDP DATA submessages that reach the participant (fresh or re-sent); ParticipantMessage liveliness assertions are not exercised (RustDDS applies them to writer liveliness only)",
      "tolerances: 20 ms before the lease for safety, lease + clean-up period (2 s) + 300 ms for liveness, 300 ms for discovery / dispose / unmatch reports, 1 s for the rematch of a reappeared participant",
      "the scripted participants' payloads come from RustDDS' own PL_CDR serialisers (the wire format is C15's subject, not this check's)",
    ],
  }
}

pub const C12_STUB: &[&str] = &[
  "kernel UDP and epoll: mio 0.6 Poll/UdpSocket replaced by mio06-sim (readiness queue mirrored from mio 0.6; FIFO event order, seed-chosen batch prefixes)",
  "mio-extras timer wheel and channels: mio-extras-sim on simulated time",
  "wall and monotonic clocks, thread::sleep, interface enumeration, OS randomness (deterministic interposer)",
  "thread scheduling: real OS threads, but exactly one holds the baton",
  "the two remote participants are scripted (they never answer ACKNACKs; their SPDP/SEDP payload bytes are produced by RustDDS' serialisers)",
];

const ANODE: u32 = 1;
const SPDP_W: wire::Eid = [0x00, 0x01, 0x00, 0xc2];
const SPDP_R: wire::Eid = [0x00, 0x01, 0x00, 0xc7];
const PUB_W: wire::Eid = [0x00, 0x00, 0x03, 0xc2];
const PUB_R: wire::Eid = [0x00, 0x00, 0x03, 0xc7];
const SUB_W: wire::Eid = [0x00, 0x00, 0x04, 0xc2];
const SUB_R: wire::Eid = [0x00, 0x00, 0x04, 0xc7];

const SAFETY_MARGIN: u64 = 20 * MS;
const TICK: u64 = 2 * SEC;
const REPORT: u64 = 300 * MS;
const REMATCH: u64 = SEC;

fn v(class: &str, d: String) -> Violation {
  Violation::new(class, d)
}

fn ch<R>(f: impl FnOnce(&mut simcore::choice::Chooser) -> R) -> R {
  e2::with(|st| f(&mut st.ctx.ch))
}

pub fn run(_tier: &str, ctx: &mut Ctx) -> Check {
  e2::enter(ctx);
  let r = body();
  e2::leave(ctx);
  r
}

struct Peer {
  name: &'static str,
  node: u32,
  prefix: [u8; 12],
  lease: Lease,
  /// the lease the property speaks of, in ns (None = infinite)
  lease_ns: Option<u64>,
  be: bool,
  spdp_sn: i64,
  last_was_announcement: bool,
  /// arrival times of SPDP DATA at A
  signs: Vec<u64>,
  /// A has reported it discovered and not lost since
  known: bool,
  /// a sign arrived while A did not know the peer: discovery is owed since then
  owes_discovery: Option<u64>,
  /// a dispose arrived while A knew the peer: a Disposed loss is owed since then
  owes_dispose: Option<u64>,
  disposes_sent: u64,
  disposes_reported: u64,
  /// A has been told about the peer's writer and reader through SEDP and has not been told to forget them
  /// (a dispose of the participant removes them, a time-out only parks them)
  sedp_announced: bool,
  sedp_sn: i64,
  writer: Guid,
  reader: Guid,
  /// A's reader is matched with the peer's writer / A's writer with the peer's reader
  w_matched: bool,
  r_matched: bool,
  /// unmatch owed since (after a loss)
  owes_unmatch: Option<u64>,
  /// rematch owed since (after a timed-out participant reappeared)
  owes_rematch: Option<u64>,
  lost_by_timeout: bool,
  losses: u64,
}

fn addr(node: u32, port: u16) -> SocketAddr {
  SocketAddr::V4(SocketAddrV4::new(simcore::node_ip(node), port))
}

fn mc() -> SocketAddr {
  SocketAddr::V4(SocketAddrV4::new(Ipv4Addr::new(239, 255, 0, 1), 7400))
}

impl Peer {
  fn new(name: &'static str, node: u32, tag: u8, lease: Lease, be: bool) -> Self {
    let prefix = [0x01, 0x12, tag, tag, tag, tag, 0x10, 0x20, 0x30, 0x40, 0x50, tag];
    let lease_ns = match lease {
      Lease::Absent => Some(100 * SEC), // RTPS 2.3 table 9.13: default leaseDuration {100, 0}
      Lease::Millis(ms) => Some(ms as u64 * MS),
      Lease::Infinite => None,
    };
    Peer {
      name,
      node,
      prefix,
      lease,
      lease_ns,
      be,
      spdp_sn: 0,
      last_was_announcement: false,
      signs: vec![],
      known: false,
      owes_discovery: None,
      owes_dispose: None,
      disposes_sent: 0,
      disposes_reported: 0,
      sedp_announced: false,
      sedp_sn: 0,
      writer: wire::guid(prefix, [0, 0, 1, 0x02]),
      reader: wire::guid(prefix, [0, 0, 2, 0x07]),
      w_matched: false,
      r_matched: false,
      owes_unmatch: None,
      owes_rematch: None,
      lost_by_timeout: false,
      losses: 0,
    }
  }

  fn set_lease(&mut self, lease: Lease) {
    self.lease = lease;
    self.lease_ns = match lease {
      Lease::Absent => Some(100 * SEC),
      Lease::Millis(ms) => Some(ms as u64 * MS),
      Lease::Infinite => None,
    };
  }

  fn announce(&mut self, fresh: bool, unicast: bool) {
    // a re-sent announcement is the latest change of the SPDP writer once more; after a
    // dispose (or before the first announcement) there is nothing to re-send
    let fresh = fresh || !self.last_was_announcement;
    if fresh {
      self.spdp_sn += 1;
    }
    self.last_was_announcement = true;
    let payload = pl::spdp_payload(
      self.prefix,
      self.lease,
      &[addr(self.node, 7410)],
      &[mc()],
      &[addr(self.node, 7411)],
      &[],
      self.be,
    );
    let sub = Sub::Data {
      reader: SPDP_R,
      writer: SPDP_W,
      sn: self.spdp_sn,
      inline_qos: None,
      has_data: true,
      has_key: false,
      payload: Some(payload),
    };
    let dst = if unicast { addr(ANODE, 7410) } else { mc() };
    let lat = 100_000;
    e2::log(&format!(
      "{} announces (sn {}, {}, {})",
      self.name,
      self.spdp_sn,
      if fresh { "fresh" } else { "re-sent" },
      if unicast { "unicast" } else { "multicast" }
    ));
    e2::scripted_send(self.node, dst, wire::encode_msg(&self.prefix, &[sub], self.be), lat);
    let at = simcore::now_ns() + lat;
    self.signs.push(at);
    // RTPS 8.5.3.3: the SPDP writer periodically re-sends the same announcement, so a re-sent
    // one (same sequence number) is what a participant that was silent for a while comes back with
    if !self.known && self.owes_discovery.is_none() {
      self.owes_discovery = Some(at);
    }
    e2::count("op.announce");
  }

  fn dispose(&mut self) {
    self.spdp_sn += 1;
    self.last_was_announcement = false;
    let sub = Sub::Data {
      reader: SPDP_R,
      writer: SPDP_W,
      sn: self.spdp_sn,
      inline_qos: Some(vec![status_info(true, true)]),
      has_data: false,
      has_key: true,
      payload: Some(pl::spdp_key_payload(self.prefix, self.be)),
    };
    let lat = 100_000;
    e2::log(&format!("{} disposes itself (sn {})", self.name, self.spdp_sn));
    e2::scripted_send(self.node, addr(ANODE, 7410), wire::encode_msg(&self.prefix, &[sub], self.be), lat);
    self.disposes_sent += 1;
    // an announcement that had not been reported yet is overtaken by the dispose
    if self.known || self.owes_discovery.is_some() {
      self.owes_dispose = Some(simcore::now_ns() + lat);
    }
    e2::count("op.dispose");
  }

  fn sedp_announce(&mut self, q: &rustdds::QosPolicies) {
    self.sedp_sn += 1;
    let sn = self.sedp_sn;
    let dw = rustdds::verif::discovered_writer(self.writer, "T", "Msg", q, &[addr(self.node, 7411)], &[]);
    let dr = rustdds::verif::discovered_reader(self.reader, "T", "Msg", q, &[addr(self.node, 7411)], &[]);
    let hb = |w: wire::Eid, r: wire::Eid| Sub::Heartbeat {
      reader: r,
      writer: w,
      first: sn, // earlier announcements are no longer available
      last: sn,
      count: sn as i32,
      final_flag: true,
      liveliness: false,
    };
    let data = |w: wire::Eid, r: wire::Eid, payload: Vec<u8>| Sub::Data {
      reader: r,
      writer: w,
      sn,
      inline_qos: None,
      has_data: true,
      has_key: false,
      payload: Some(payload),
    };
    e2::log(&format!("{} announces a writer and a reader on T through SEDP (sn {sn})", self.name));
    let m1 = wire::encode_msg(
      &self.prefix,
      &[data(PUB_W, PUB_R, pl::publication_payload(&dw, self.be)), hb(PUB_W, PUB_R)],
      self.be,
    );
    let m2 = wire::encode_msg(
      &self.prefix,
      &[data(SUB_W, SUB_R, pl::subscription_payload(&dr, self.be)), hb(SUB_W, SUB_R)],
      self.be,
    );
    e2::scripted_send(self.node, addr(ANODE, 7410), m1, 100_000);
    e2::scripted_send(self.node, addr(ANODE, 7410), m2, 100_000);
    self.sedp_announced = true;
    e2::count("op.sedp_announce");
  }

  fn last_sign_at_or_before(&self, t: u64) -> Option<u64> {
    self.signs.iter().rev().find(|s| **s <= t).copied()
  }
}

struct World {
  dpa: Leak<rustdds::DomainParticipant>,
  rd: Leak<with_key::DataReader<Msg>>,
  wr: Leak<with_key::DataWriter<Msg>>,
  peers: Vec<Peer>,
  prev_poll: u64,
  /// when a scripted participant last sent something
  last_action: u64,
  next_c_announce: u64,
  events: u64,
  fp: simcore::digest::Fnv,
}

impl World {
  /// let `d` of simulated time pass in 10 ms slices; C keeps announcing; A's events are checked after every slice
  fn pass(&mut self, d: u64) -> Check {
    let end = simcore::now_ns() + d;
    while simcore::now_ns() < end {
      let now = simcore::now_ns();
      // the participant status channel holds 16 events and one discovery produces 11: the two
      // scripted participants never act within the same 3 ms, and events are collected every
      // millisecond right after an action
      if now >= self.next_c_announce && now >= self.last_action + 3 * MS {
        self.peers[1].announce(true, false);
        self.next_c_announce = now + SEC;
        self.last_action = now;
      }
      let fine = now < self.last_action + 30 * MS;
      let slice = (end - now).min(if fine { MS } else { 10 * MS });
      e2::run_for(slice)?;
      let _ = e2::drain_scripted_inbox();
      self.observe()?;
    }
    Ok(())
  }

  fn observe(&mut self) -> Check {
    let now = simcore::now_ns();
    let prev = self.prev_poll;
    // ---- participant level ------------------------------------------------------------
    while let Some(ev) = self.dpa.status_listener().try_recv_status() {
      match ev {
        DomainParticipantStatusEvent::ParticipantDiscovered { dpd } => {
          let pfx: [u8; 12] = dpd.guid.prefix.as_ref().try_into().unwrap();
          if let Some(p) = self.peers.iter_mut().find(|p| p.prefix == pfx) {
            e2::log(&format!("A: discovered {}", p.name));
            self.events += 1;
            self.fp.str("disc").str(p.name);
            if p.signs.iter().all(|s| *s > now) {
              return Err(v(
                "C12/discovered-without-announcement",
                format!("{} was reported discovered before any of its announcements arrived", p.name),
              ));
            }
            if p.known {
              return Err(v(
                "C12/discovered-twice",
                format!("{} was reported discovered although it was known and had not been reported lost", p.name),
              ));
            }
            p.known = true;
            p.owes_discovery = None;
            if p.lost_by_timeout && p.sedp_announced {
              // what was learned from it before the time-out becomes known again
              p.owes_rematch = Some(now);
            }
            p.lost_by_timeout = false;
          }
        }
        DomainParticipantStatusEvent::ParticipantLost { id, reason } => {
          let pfx: [u8; 12] = id.as_ref().try_into().unwrap();
          if let Some(p) = self.peers.iter_mut().find(|p| p.prefix == pfx) {
            e2::log(&format!("A: lost {} ({reason:?})", p.name));
            self.events += 1;
            p.losses += 1;
            self.fp.str("lost").str(p.name);
            match reason {
              LostReason::Timeout { lease, elapsed } => {
                self.fp.str("timeout");
                let last = p.last_sign_at_or_before(prev);
                match (p.lease_ns, last) {
                  (None, _) => {
                    return Err(v(
                      "C12/dropped-despite-infinite-lease",
                      format!("{} advertised an infinite lease and was dropped (reported lease {lease:?}, elapsed {elapsed:?})", p.name),
                    ))
                  }
                  (Some(l), Some(s)) => {
                    if now.saturating_sub(s) + SAFETY_MARGIN <= l {
                      return Err(v(
                        "C12/dropped-within-lease",
                        format!(
                          "{} (lease {:?} = {} ms) was dropped {} ms after its last announcement arrived (reported lease {lease:?}, elapsed {elapsed:?})",
                          p.name,
                          p.lease,
                          l / MS,
                          (now - s) / MS
                        ),
                      ));
                    }
                  }
                  (Some(_), None) => {
                    return Err(v(
                      "C12/lost-without-announcement",
                      format!("{} was reported lost before any announcement of it had arrived", p.name),
                    ))
                  }
                }
                p.lost_by_timeout = true;
                e2::count("probe.lost_by_timeout");
              }
              LostReason::Disposed => {
                self.fp.str("disposed");
                p.disposes_reported += 1;
                if p.disposes_reported > p.disposes_sent {
                  return Err(v(
                    "C12/reported-disposed-without-dispose",
                    format!("{} was reported Disposed {} times, it sent {} disposes", p.name, p.disposes_reported, p.disposes_sent),
                  ));
                }
                p.owes_dispose = None;
                p.lost_by_timeout = false;
                p.sedp_announced = false;
                e2::count("probe.lost_by_dispose");
              }
            }
            p.known = false;
            p.owes_rematch = None;
            if p.w_matched || p.r_matched {
              p.owes_unmatch = Some(now);
            }
          }
        }
        other => {
          e2::log(&format!("A: event {}", format!("{other:?}").chars().take(60).collect::<String>()));
        }
      }
    }
    // ---- endpoint level -----------------------------------------------------------------
    while let Some(st) = self.rd.try_recv_status() {
      if let DataReaderStatus::SubscriptionMatched { current, writer, .. } = st {
        let g = writer.to_bytes();
        if let Some(p) = self.peers.iter_mut().find(|p| p.writer == g) {
          e2::log(&format!("A's reader: writer of {} {:+}", p.name, current.count_change()));
          self.fp.str("sm").u64(current.count_change() as u64);
          if current.count_change() > 0 {
            p.w_matched = true;
          } else if current.count_change() < 0 {
            if p.known && p.owes_dispose.is_none() && p.losses == 0 {
              return Err(v(
                "C12/endpoints-of-live-participant-unmatched",
                format!("the writer of {}, which is known and was never lost, was unmatched from A's reader", p.name),
              ));
            }
            p.w_matched = false;
          }
        }
      }
    }
    while let Some(st) = self.wr.try_recv_status() {
      if let DataWriterStatus::PublicationMatched { current, reader, .. } = st {
        let g = reader.to_bytes();
        if let Some(p) = self.peers.iter_mut().find(|p| p.reader == g) {
          e2::log(&format!("A's writer: reader of {} {:+}", p.name, current.count_change()));
          self.fp.str("pm").u64(current.count_change() as u64);
          if current.count_change() > 0 {
            p.r_matched = true;
          } else if current.count_change() < 0 {
            if p.known && p.owes_dispose.is_none() && p.losses == 0 {
              return Err(v(
                "C12/endpoints-of-live-participant-unmatched",
                format!("the reader of {}, which is known and was never lost, was unmatched from A's writer", p.name),
              ));
            }
            p.r_matched = false;
          }
        }
      }
    }
    // ---- obligations ---------------------------------------------------------------------
    for p in self.peers.iter_mut() {
      if let Some(t) = p.owes_discovery {
        if now > t + REPORT {
          return Err(v(
            "C12/announcement-not-reported",
            format!("a fresh announcement of {} arrived {} ms ago; it has not been reported as discovered", p.name, (now - t) / MS),
          ));
        }
      }
      if let Some(t) = p.owes_dispose {
        if now > t + REPORT {
          return Err(v(
            "C12/dispose-not-immediate",
            format!("the dispose of {} arrived {} ms ago; it is still not reported lost (Disposed)", p.name, (now - t) / MS),
          ));
        }
      }
      if p.known && p.owes_dispose.is_none() {
        if let (Some(l), Some(s)) = (p.lease_ns, p.last_sign_at_or_before(now)) {
          if now > s + l + TICK + REPORT {
            return Err(v(
              "C12/silent-participant-not-dropped",
              format!(
                "{} (lease {:?} = {} ms) has been silent for {} ms and is still not reported lost",
                p.name,
                p.lease,
                l / MS,
                (now - s) / MS
              ),
            ));
          }
        }
      }
      if let Some(t) = p.owes_unmatch {
        if !p.w_matched && !p.r_matched {
          p.owes_unmatch = None;
        } else if now > t + REPORT {
          return Err(v(
            "C12/endpoints-not-unmatched-with-lost-participant",
            format!(
              "{} was reported lost {} ms ago; still matched: its writer {}, its reader {}",
              p.name,
              (now - t) / MS,
              p.w_matched,
              p.r_matched
            ),
          ));
        }
      }
      if let Some(t) = p.owes_rematch {
        if p.w_matched && p.r_matched {
          p.owes_rematch = None;
          e2::count("probe.rematched_after_timeout");
        } else if now > t + REMATCH {
          return Err(v(
            "C12/endpoints-of-reappeared-participant-not-known-again",
            format!(
              "{} timed out and reappeared {} ms ago; the endpoints learned from it before are not matched again (its writer {}, its reader {})",
              p.name,
              (now - t) / MS,
              p.w_matched,
              p.r_matched
            ),
          ));
        }
      }
    }
    self.prev_poll = now;
    Ok(())
  }
}

fn body() -> Check {
  let lease = ch(|c| {
    *c.pick(&[
      Lease::Millis(3000),
      Lease::Millis(1000),
      Lease::Millis(500),
      Lease::Millis(10_000),
      Lease::Absent,
      Lease::Infinite,
    ])
  });
  let be = ch(|c| c.flag());
  let q = qos(true, History::KeepAll, false);

  let dpa = new_participant(ANODE)?;
  simcore::set_node(ANODE);
  let topic = leak(
    dpa
      .create_topic("T".into(), "Msg".into(), &q, TopicKind::WithKey)
      .map_err(|e| herr("topic", e))?,
  );
  let sub = leak(dpa.create_subscriber(&q).map_err(|e| herr("subscriber", e))?);
  let publ = leak(dpa.create_publisher(&q).map_err(|e| herr("publisher", e))?);
  let rd: with_key::DataReader<Msg> = sub.create_datareader_cdr(&topic, Some(q.clone())).map_err(|e| herr("reader", e))?;
  let wr: with_key::DataWriter<Msg> = publ.create_datawriter_cdr(&topic, Some(q.clone())).map_err(|e| herr("writer", e))?;
  let _ = (rd.guid(), wr.guid());
  e2::with(|st| {
    st.scripted.insert(3);
    st.scripted.insert(4);
  });
  let mut w = World {
    dpa,
    rd: leak(rd),
    wr: leak(wr),
    peers: vec![Peer::new("B", 3, 0xb0, lease, be), Peer::new("C", 4, 0xc0, Lease::Millis(3000), !be)],
    prev_poll: simcore::now_ns(),
    last_action: 0,
    next_c_announce: 0,
    events: 0,
    fp: simcore::digest::Fnv::new(),
  };
  e2::log(&format!("cfg lease={lease:?} big_endian={be}"));
  // A starts up: its own start-up events are collected before anybody announces
  for _ in 0..20 {
    e2::run_for(5 * MS)?;
    while w.dpa.status_listener().try_recv_status().is_some() {}
  }
  w.prev_poll = simcore::now_ns();
  w.next_c_announce = simcore::now_ns();
  // the phase of B's pattern relative to A's clean-up tick
  let phase = ch(|c| c.draw(20)) * 100 * MS;
  w.pass(phase + 50 * MS)?;

  let steps = 3 + ch(|c| c.draw(12));
  let mut ops = String::new();
  // in half of the runs the participant that stays alive has endpoints too: they must stay matched
  let c_has_endpoints = ch(|c| c.flag());
  for _ in 0..steps {
    let l_ns = w.peers[0].lease_ns.unwrap_or(10 * SEC);
    if simcore::now_ns() < w.last_action + 3 * MS {
      w.pass(3 * MS)?;
    }
    if c_has_endpoints && w.peers[1].known && !w.peers[1].sedp_announced {
      w.peers[1].sedp_announce(&q);
      w.last_action = simcore::now_ns();
      w.pass(20 * MS)?;
    }
    let known = w.peers[0].known;
    let can_sedp = known && !w.peers[0].sedp_announced;
    match ch(|c| c.weighted(&[5, 6, 2, 1, if can_sedp { 6 } else { 0 }])) {
      0 => {
        let unicast = ch(|c| c.flag());
        // a participant may advertise another lease with a new announcement; the latest one counts
        if w.peers[0].spdp_sn > 0 && ch(|c| c.chance(1, 5)) {
          let nl = ch(|c| {
            *c.pick(&[
              Lease::Millis(3000),
              Lease::Millis(1000),
              Lease::Millis(500),
              Lease::Millis(10_000),
              Lease::Millis(30_000),
              Lease::Infinite,
            ])
          });
          w.peers[0].set_lease(nl);
          e2::log(&format!("B changes its lease to {nl:?}"));
          e2::count("op.lease_changed");
          ops.push('l');
        }
        w.peers[0].announce(true, unicast);
        ops.push('a');
      }
      1 => {
        // how long B stays quiet
        let d = match ch(|c| c.draw(8)) {
          0 => 100 * MS,
          1 => l_ns / 2,
          2 => l_ns / 10 * 9,
          3 => l_ns.saturating_sub(30 * MS),
          4 => l_ns / 10 * 12,
          5 => l_ns + 2500 * MS,
          6 => 3 * l_ns,
          _ => 70 * SEC, // between RustDDS' and RTPS' default lease
        };
        let d = d.min(320 * SEC);
        e2::log(&format!("B stays quiet for {} ms", d / MS));
        if d > l_ns {
          e2::count("fault.silence_beyond_lease");
        } else {
          e2::count("fault.silence_within_lease");
        }
        ops.push_str(&format!("w{}", d / MS));
        w.pass(d)?;
      }
      2 => {
        let unicast = ch(|c| c.flag());
        w.peers[0].announce(false, unicast);
        e2::count("fault.duplicate");
        ops.push('r');
      }
      3 => {
        w.peers[0].dispose();
        ops.push('d');
      }
      _ => {
        w.peers[0].sedp_announce(&q);
        ops.push('s');
      }
    }
    w.last_action = simcore::now_ns();
    w.pass(20 * MS)?;
  }
  // come to rest: everything owed is reported
  w.pass(REPORT + 100 * MS)?;

  let b = &w.peers[0];
  let (signs, losses, events) = (b.signs.len() as u64, b.losses, w.events);
  let mut fp = std::mem::replace(&mut w.fp, simcore::digest::Fnv::new());
  e2::with(|st| {
    st.ctx.nontrivial = losses >= 1 || signs >= 3;
    st.ctx.add("participant_events", events);
    st.ctx.add("announcements", signs);
    fp.str(&ops);
    st.ctx.state(fp.get());
  });
  Ok(())
}
