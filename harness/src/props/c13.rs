//! C13 — no wake-up is lost between the receive thread and a waiting application.
//!
//! Engine E2: a real writer participant and a real reader participant, matched
//! through real discovery, over a network with loss, duplication and jitter.
//! The application follows the documented pattern and is *parked* between
//! readiness signals: it touches the reader (or re-polls a future) only after
//! its waker was invoked / its mio source reported readable.  Interleavings of
//! the receive thread with the application are explored at the granularity of
//! the event loop's poll turns (seed-chosen prefixes of the pending events per
//! turn, seed-chosen datagram delivery order and time slices between the
//! application's steps); the lock-release granularity the property text
//! mentions would need yield hooks inside RustDDS and is not built.

use std::{
  pin::Pin,
  sync::{
    atomic::{AtomicBool, AtomicU64, Ordering},
    Arc,
  },
  task::{Context, Poll},
  time::Duration,
};

use futures::{stream::Stream, Future, StreamExt};
use rustdds::{no_key, policy::History, with_key, DataReaderStatus, DataWriterStatus, RTPSEntity, StatusEvented, TopicKind};

use super::{
  c09::{E2_REAL, E2_STUB},
  Spec,
};
use crate::{
  ctx::{Check, Ctx, Violation},
  e2::{self, MS, SEC},
  e2rig::*,
};

pub fn spec() -> Spec {
  Spec {
    id: "C13",
    engine: "E2 participant (a real writer participant and a real reader participant with their event-loop and discovery threads under the baton scheduler; the application is the driver, parked between readiness signals)",
    level: "exploration",
    rule: "one case = one seeded run: after real discovery the writer application writes 1-12 samples (some above the fragment size) at seed-chosen moments over a network with loss up to 20 %, duplication and jitter, while the reader application consumes through one of: DataReader async sample stream, bare stream, no_key stream, SimpleDataReader stream (polled again only after the task's waker was invoked), mio-0.6 readiness (shim Poll, blocking with a timeout that drives the simulated world), mio-0.8 readiness (the real socketpair source polled with a real zero-timeout mio-0.8 Poll) followed by take-until-empty; or the writer application awaits async_write against a full command queue, async_wait_for_acknowledgments, or calls wait_for_acknowledgments with a timeout. Oracle: 30 simulated seconds after the last write and the last fault every sample has reached the application; if one more unconditional take/poll then produces the missing samples the wake-up was lost, otherwise delivery itself failed; a pending future completes within 30 s once its condition holds; the synchronous wait answers false no earlier than its timeout and never true when the reader cannot acknowledge. non-trivial = at least one sample delivered or one future completed after having been Pending; distinct = fingerprint of form, sizes and the poll/wake sequence",
    quick_runs: 20_000,
    quick_secs: 150.0,
    thorough_runs: 200_000,
    thorough_secs: 1800.0,
    batch: 1,
    per_run_timeout_s: 60.0,
    real: E2_REAL,
    stub: E2_STUB,
    assumptions: &[
      "interleaving granularity: poll turns of the event loop (seed-chosen prefixes of its pending events), datagram delivery order, and the time slices between application steps; not lock-release granularity (no yield hooks inside RustDDS)",
      "the mio-0.8 form uses the real socketpair and a real mio-0.8 Poll with zero timeout: deterministic because the notification byte is in the kernel buffer before the application looks",
      "bounded liveness: 30 simulated seconds after the last write and the last fault (C02 measures recovery below 3 s)",
    ],
  }
}

fn v(class: &str, d: String) -> Violation {
  Violation::new(class, d)
}

fn ch<R>(f: impl FnOnce(&mut simcore::choice::Chooser) -> R) -> R {
  e2::with(|st| f(&mut st.ctx.ch))
}

pub fn run(_tier: &str, ctx: &mut Ctx) -> Check {
  e2::enter(ctx);
  let r = body();
  e2::leave(ctx);
  r
}

#[derive(Clone, Copy, Debug, PartialEq, Eq)]
enum Form {
  StreamSample,
  StreamBare,
  NoKeyStream,
  SimpleStream,
  Mio06,
  Mio08,
  AsyncWrite,
  AsyncWaitAck,
  SyncWaitAck,
}

/// the task's waker: sets a flag and counts
struct WakeFlag {
  woken: AtomicBool,
  wakes: AtomicU64,
}
impl futures::task::ArcWake for WakeFlag {
  fn wake_by_ref(a: &Arc<Self>) {
    a.woken.store(true, Ordering::SeqCst);
    a.wakes.fetch_add(1, Ordering::SeqCst);
  }
}

type ItemStream = Pin<Box<dyn Stream<Item = Result<(u32, Vec<u8>), String>>>>;

/// an executor's view of one task: poll only if woken; returns what the polls produced
fn run_task_stream(s: &mut ItemStream, flag: &Arc<WakeFlag>, force: bool, got: &mut Vec<(u32, Vec<u8>)>, polls: &mut u64) -> Check {
  if !force && !flag.woken.swap(false, Ordering::SeqCst) {
    return Ok(());
  }
  let waker = futures::task::waker(flag.clone());
  let mut cx = Context::from_waker(&waker);
  for _ in 0..10_000 {
    *polls += 1;
    match s.as_mut().poll_next(&mut cx) {
      Poll::Ready(Some(Ok(x))) => got.push(x),
      Poll::Ready(Some(Err(e))) => return Err(v("C13/stream-error", format!("the stream returned an error on well-formed traffic: {e}"))),
      Poll::Ready(None) | Poll::Pending => return Ok(()),
    }
  }
  Err(v("C13/stream-never-pending", "the stream stayed Ready for 10000 polls".into()))
}

fn body() -> Check {
  let forms = [
    Form::StreamSample,
    Form::StreamBare,
    Form::NoKeyStream,
    Form::SimpleStream,
    Form::Mio06,
    Form::Mio08,
    Form::AsyncWrite,
    Form::AsyncWaitAck,
    Form::SyncWaitAck,
  ];
  let form = forms[ch(|c| c.index(forms.len()))];
  let no_key = matches!(form, Form::NoKeyStream | Form::SimpleStream);
  let consumer_form = !matches!(form, Form::AsyncWrite | Form::AsyncWaitAck | Form::SyncWaitAck);
  // a third of the consumer runs is best effort: what is lost is lost, but what arrives must wake the application
  let reliable = !consumer_form || ch(|c| c.chance(2, 3));
  // a third of the with_key consumer runs has a second reader on the same topic in the same participant
  let with_sibling = consumer_form && !no_key && ch(|c| c.chance(1, 3));
  let q = qos(reliable, History::KeepAll, false);
  // a quarter of the reliable consumer runs has a writer that keeps only its last 1-2 samples: what the
  // reader missed may be gone for good, and a HEARTBEAT that says so makes later samples readable
  let writer_depth: Option<i32> = if consumer_form && reliable && ch(|c| c.chance(1, 4)) { Some(1 + ch(|c| c.draw(2)) as i32) } else { None };
  let wq = writer_depth.map(|d| qos(reliable, History::KeepLast { depth: d }, false));
  let dpw = new_participant(WNODE)?;
  let dpr = new_participant(RNODE)?;
  let kind = if no_key { TopicKind::NoKey } else { TopicKind::WithKey };
  simcore::set_node(WNODE);
  let tw = leak(dpw.create_topic("T".into(), "X".into(), &q, kind).map_err(|e| herr("topic", e))?);
  let pubr = leak(dpw.create_publisher(&q).map_err(|e| herr("publisher", e))?);
  let dw_k: Option<Leak<with_key::DataWriter<Msg>>> = if no_key {
    None
  } else {
    Some(leak(pubr.create_datawriter_cdr(&tw, wq.clone()).map_err(|e| herr("writer", e))?))
  };
  let dw_n: Option<Leak<no_key::DataWriter<Blob>>> = if no_key {
    Some(leak(pubr.create_datawriter_no_key_cdr(&tw, wq.clone()).map_err(|e| herr("writer", e))?))
  } else {
    None
  };
  simcore::set_node(RNODE);
  let tr = leak(dpr.create_topic("T".into(), "X".into(), &q, kind).map_err(|e| herr("topic", e))?);
  let sub = leak(dpr.create_subscriber(&q).map_err(|e| herr("subscriber", e))?);

  enum Rd {
    K(with_key::DataReader<Msg>),
    N(no_key::DataReader<Blob>),
    S(no_key::SimpleDataReader<Blob, rustdds::CDRDeserializerAdapter<Blob>>),
  }
  let rd = match form {
    Form::NoKeyStream => Rd::N(sub.create_datareader_no_key_cdr(&tr, None).map_err(|e| herr("reader", e))?),
    Form::SimpleStream => Rd::S(sub.create_simple_datareader_no_key(&tr, None).map_err(|e| herr("reader", e))?),
    _ => Rd::K(sub.create_datareader_cdr(&tr, None).map_err(|e| herr("reader", e))?),
  };
  let sibling: Option<with_key::DataReader<Msg>> = if with_sibling {
    Some(sub.create_datareader_cdr(&tr, None).map_err(|e| herr("reader", e))?)
  } else {
    None
  };
  e2::log(&format!("cfg form={form:?} reliable={reliable} sibling={with_sibling}"));
  e2::count(&format!("op.form_{form:?}"));

  // ---- real discovery until both sides are matched -----------------------------------------------
  let wguid = match (&dw_k, &dw_n) {
    (Some(w), _) => w.guid(),
    (_, Some(w)) => w.guid(),
    _ => unreachable!(),
  };
  let mut w_matched = false;
  let mut r_matched = false;
  let ok = run_until_cond(DISCOVERY_BUDGET, 100 * MS, || {
    if let Some(w) = &dw_k {
      while let Some(st) = w.try_recv_status() {
        if matches!(st, DataWriterStatus::PublicationMatched { .. }) {
          w_matched = true;
        }
      }
    }
    if let Some(w) = &dw_n {
      while let Some(st) = w.try_recv_status() {
        if matches!(st, DataWriterStatus::PublicationMatched { .. }) {
          w_matched = true;
        }
      }
    }
    while let Some(ev) = dpr.status_listener().try_recv_status() {
      if let rustdds::DomainParticipantStatusEvent::RemoteWriterMatched { remote_writer, .. } = ev {
        if remote_writer == wguid {
          r_matched = true;
        }
      }
    }
    w_matched && r_matched
  })?;
  if !ok {
    return Err(v("HARNESS-ERROR/c13-no-match", format!("writer matched {w_matched}, reader matched {r_matched} within the discovery budget")));
  }
  e2::run_for(200 * MS)?;

  // ---- faults ------------------------------------------------------------------------------------------
  // (a writer that keeps only its last samples is interesting only when the reader misses some)
  let faulty = writer_depth.is_some() || ch(|c| c.chance(2, 3));
  if faulty {
    e2::with(|st| {
      st.net.drop_pct = if writer_depth.is_some() { *st.ctx.ch.pick(&[20u64, 35]) } else { *st.ctx.ch.pick(&[0u64, 5, 20]) };
      st.net.dup_pct = *st.ctx.ch.pick(&[0u64, 10]);
      st.net.jitter = *st.ctx.ch.pick(&[0u64, MS, 30 * MS]);
      st.faults_on = true;
    });
  }
  let flag = Arc::new(WakeFlag {
    woken: AtomicBool::new(true), // a new task is polled once
    wakes: AtomicU64::new(0),
  });
  let n = if writer_depth.is_some() { 6 + ch(|c| c.draw(7)) as usize } else { 1 + ch(|c| c.draw(12)) as usize };
  // with such a writer, in half of the runs two chosen samples (k and k+2) are lost in every transmission
  // until the faults stop: what lies between them arrives behind a hole that only a HEARTBEAT closes
  if writer_depth.is_some() && ch(|c| c.flag()) {
    let k = 1 + ch(|c| c.draw((n - 3) as u64)) as i64;
    e2::with(|st| {
      st.lose_sns.insert(k);
      st.lose_sns.insert(k + 2);
    });
  }
  let sizes: Vec<usize> = (0..n).map(|_| ch(|c| *c.pick(&[4usize, 40, 1500, 3000]))).collect();
  let body_of = |i: usize| -> Vec<u8> {
    let mut b = vec![0u8; sizes[i]];
    for (j, x) in b.iter_mut().enumerate() {
      *x = (i as u8).wrapping_mul(17).wrapping_add(j as u8);
    }
    b[0] = i as u8;
    b
  };
  let write = |i: usize| -> Result<(), String> {
    simcore::set_node(WNODE);
    if let Some(w) = &dw_k {
      w.write(Msg { k: i as u32 % 3, v: body_of(i) }, None).map_err(|e| format!("{e:?}"))
    } else {
      dw_n.as_ref().unwrap().write(Blob { v: body_of(i) }, None).map_err(|e| format!("{e:?}"))
    }
  };
  let mut fp = simcore::digest::Fnv::new();
  fp.str(&format!("{form:?}{sizes:?}{faulty}"));
  let mut nontrivial = false;

  match form {
    // ================================ consumer forms ===================================================
    Form::StreamSample | Form::StreamBare | Form::NoKeyStream | Form::SimpleStream | Form::Mio06 | Form::Mio08 => {
      let mut got: Vec<(u32, Vec<u8>)> = vec![];
      let mut polls = 0u64;
      // the reader goes into its stream / poll
      let mut stream: Option<ItemStream> = None;
      let mut rd_k: Option<Leak<with_key::DataReader<Msg>>> = None;
      let mut simple: Option<Leak<no_key::SimpleDataReader<Blob, rustdds::CDRDeserializerAdapter<Blob>>>> = None;
      match (rd, form) {
        (Rd::K(r), Form::StreamSample) => {
          stream = Some(Box::pin(r.async_sample_stream().map(|x| match x {
            Ok(ds) => match ds.into_value() {
              with_key::Sample::Value(m) => Ok((m.k, m.v)),
              with_key::Sample::Dispose(k) => Ok((k, vec![])),
            },
            Err(e) => Err(format!("{e:?}")),
          })));
        }
        (Rd::K(r), Form::StreamBare) => {
          stream = Some(Box::pin(r.async_bare_sample_stream().map(|x| match x {
            Ok(with_key::Sample::Value(m)) => Ok((m.k, m.v)),
            Ok(with_key::Sample::Dispose(k)) => Ok((k, vec![])),
            Err(e) => Err(format!("{e:?}")),
          })));
        }
        (Rd::N(r), _) => {
          stream = Some(Box::pin(r.async_sample_stream().map(|x| match x {
            Ok(ds) => Ok((0, ds.into_value().v)),
            Err(e) => Err(format!("{e:?}")),
          })));
        }
        (Rd::S(r), _) => simple = Some(leak(r)),
        (Rd::K(r), _) => rd_k = Some(leak(r)),
      }
      let mut stream = leak(stream);
      // the sibling reader is consumed by a second parked task
      let flag2 = Arc::new(WakeFlag {
        woken: AtomicBool::new(true),
        wakes: AtomicU64::new(0),
      });
      let mut got2: Vec<(u32, Vec<u8>)> = vec![];
      let mut polls2 = 0u64;
      let mut sib_stream: Leak<Option<ItemStream>> = leak(sibling.map(|r| {
        let st: ItemStream = Box::pin(r.async_bare_sample_stream().map(|x| match x {
          Ok(with_key::Sample::Value(m)) => Ok((m.k, m.v)),
          Ok(with_key::Sample::Dispose(k)) => Ok((k, vec![])),
          Err(e) => Err(format!("{e:?}")),
        }));
        st
      }));
      // mio polls
      let poll06 = leak(mio_06::Poll::new().map_err(|e| herr("poll06", e))?);
      let mut poll08 = leak(mio_08::Poll::new().map_err(|e| herr("poll08", e))?);
      if form == Form::Mio06 {
        poll06
          .register(&**rd_k.as_ref().unwrap(), mio_06::Token(1), mio_06::Ready::readable(), mio_06::PollOpt::edge())
          .map_err(|e| herr("register06", e))?;
      }
      if form == Form::Mio08 {
        poll08
          .registry()
          .register(&mut **rd_k.as_mut().unwrap(), mio_08::Token(1), mio_08::Interest::READABLE)
          .map_err(|e| herr("register08", e))?;
      }
      let take_all = |r: &mut with_key::DataReader<Msg>, got: &mut Vec<(u32, Vec<u8>)>| -> Check {
        simcore::set_node(RNODE);
        loop {
          match r.take(4, rustdds::ReadCondition::any()) {
            Ok(v2) if v2.is_empty() => return Ok(()),
            Ok(v2) => {
              for s in v2 {
                match s.into_value() {
                  with_key::Sample::Value(m) => got.push((m.k, m.v)),
                  with_key::Sample::Dispose(k) => got.push((k, vec![])),
                }
              }
            }
            Err(e) => return Err(v("C13/take-failed", format!("{e:?}"))),
          }
        }
      };
      // one application step: only acts on a readiness signal
      let mut app_step = |got: &mut Vec<(u32, Vec<u8>)>, polls: &mut u64, force: bool, wait: u64| -> Check {
        simcore::set_node(RNODE);
        match form {
          Form::Mio06 => {
            let mut events = mio_06::Events::with_capacity(4);
            // blocking poll: the driver drives the simulated world until readiness or the timeout
            poll06.poll(&mut events, Some(Duration::from_nanos(wait))).map_err(|e| herr("poll06", e))?;
            *polls += 1;
            if force || events.iter().next().is_some() {
              take_all(rd_k.as_mut().unwrap(), got)?;
            }
            Ok(())
          }
          Form::Mio08 => {
            e2::run_for(wait)?;
            let mut events = mio_08::Events::with_capacity(4);
            poll08.poll(&mut events, Some(Duration::ZERO)).map_err(|e| herr("poll08", e))?;
            *polls += 1;
            if force || events.iter().next().is_some() {
              take_all(rd_k.as_mut().unwrap(), got)?;
            }
            Ok(())
          }
          Form::SimpleStream => {
            e2::run_for(wait)?;
            if !force && !flag.woken.swap(false, Ordering::SeqCst) {
              return Ok(());
            }
            let waker = futures::task::waker(flag.clone());
            let mut cx = Context::from_waker(&waker);
            let r = simple.as_ref().unwrap();
            for _ in 0..10_000 {
              *polls += 1;
              let mut st = Box::pin(r.as_async_stream());
              match st.as_mut().poll_next(&mut cx) {
                Poll::Ready(Some(Ok(d))) => got.push((0, d.into_value().v)),
                Poll::Ready(Some(Err(e))) => return Err(v("C13/stream-error", format!("{e:?}"))),
                Poll::Ready(None) | Poll::Pending => return Ok(()),
              }
            }
            Err(v("C13/stream-never-pending", "the stream stayed Ready for 10000 polls".into()))
          }
          _ => {
            e2::run_for(wait)?;
            run_task_stream(stream.as_mut().unwrap(), &flag, force, got, polls)
          }
        }
      };
      let mut sib_step = |force: bool, got2: &mut Vec<(u32, Vec<u8>)>, polls2: &mut u64| -> Check {
        match sib_stream.as_mut() {
          Some(st) => {
            simcore::set_node(RNODE);
            run_task_stream(st, &flag2, force, got2, polls2)
          }
          None => Ok(()),
        }
      };
      // ---- producer and consumer interleaved ------------------------------------------------------------
      for i in 0..n {
        if let Err(e) = write(i) {
          return Err(v("HARNESS-ERROR/c13-write", e));
        }
        e2::log(&format!("write #{i} ({} bytes)", sizes[i]));
        let steps = ch(|c| c.draw(4));
        for _ in 0..steps {
          let wait = ch(|c| *c.pick(&[100_000u64, MS, 20 * MS, 300 * MS]));
          app_step(&mut got, &mut polls, false, wait)?;
          sib_step(false, &mut got2, &mut polls2)?;
          // sometimes, right after the parked application has (or has not) been served and before the
          // world moves on: is there anything for the taking that it was not told about?  (a wake-up that
          // only later, unrelated traffic makes up for is lost all the same)
          if ch(|c| c.chance(1, 4)) {
            let (b1, b2) = (got.len(), got2.len());
            app_step(&mut got, &mut polls, true, 0)?;
            sib_step(true, &mut got2, &mut polls2)?;
            if got.len() > b1 || got2.len() > b2 {
              return Err(v(
                "C13/wake-up-lost",
                format!(
                  "{form:?} (reliable={reliable}, sibling={with_sibling}), in the middle of the run: the parked {} had not been woken, an unconditional look found {} sample(s) waiting",
                  if got.len() > b1 { "application" } else { "task of the second reader" },
                  (got.len() - b1) + (got2.len() - b2)
                ),
              ));
            }
          }
        }
      }
      e2::with(|st| {
        st.faults_on = false;
        st.ctx.log("faults stop");
      });
      // ---- bounded liveness ---------------------------------------------------------------------------------
      let deadline = simcore::now_ns() + if reliable { 30 * SEC } else { 3 * SEC };
      // (with a writer that keeps only its last samples, the last one written is what must arrive)
      let has_last = |g: &Vec<_>| -> bool { g.iter().any(|x: &(u32, Vec<u8>)| x.1.first().copied() == Some((n - 1) as u8)) };
      let complete = |g: &Vec<_>| -> bool { if writer_depth.is_some() { has_last(g) } else { g.len() >= n } };
      while (!complete(&got) || (with_sibling && !complete(&got2))) && simcore::now_ns() < deadline {
        app_step(&mut got, &mut polls, false, 100 * MS)?;
        sib_step(false, &mut got2, &mut polls2)?;
      }
      let wakes = flag.wakes.load(Ordering::SeqCst);
      e2::log(&format!("got {} of {n} in {polls} polls, {wakes} wakes", got.len()));
      if wakes >= 2 {
        e2::count("probe.task_woken_more_than_once");
      }
      // is there anything for the taking that the parked application was not told about?
      let before = got.len();
      app_step(&mut got, &mut polls, true, MS)?;
      if got.len() > before {
        return Err(v(
          "C13/wake-up-lost",
          format!(
            "{form:?} (reliable={reliable}, sibling={with_sibling}): the parked application had {before} of {n} samples; an unconditional look found {} more waiting (wakes so far: {wakes})",
            got.len() - before
          ),
        ));
      }
      let before2 = got2.len();
      sib_step(true, &mut got2, &mut polls2)?;
      if got2.len() > before2 {
        return Err(v(
          "C13/wake-up-lost",
          format!(
            "second reader on the topic (bare stream; the first one consumes through {form:?}, reliable={reliable}): its parked task had {before2} of {n} samples; an unconditional poll found {} more waiting (wakes so far: {})",
            got2.len() - before2,
            flag2.wakes.load(Ordering::SeqCst)
          ),
        ));
      }
      let mut streams = vec![("the reader", &got)];
      if with_sibling {
        streams.push(("the second reader", &got2));
      }
      for (who, g) in streams {
        if reliable && !complete(g) {
          return Err(v(
            "C13/sample-never-arrived",
            format!(
              "{form:?}: 30 s after the last write and the last fault only {} of {n} samples have arrived at {who}{}",
              g.len(),
              if writer_depth.is_some() { " and the last one written is not among them (the writer keeps its last samples only)" } else { "" }
            ),
          ));
        }
        // content and order: what was written, each at most once, in order when reliable (the order of
        // best-effort delivery under reordering is nobody's promise here)
        let mut last: i64 = -1;
        let mut seen = std::collections::BTreeSet::new();
        for x in g.iter() {
          let i = x.1.first().copied().unwrap_or(255) as usize;
          if i >= n || x.1 != body_of(i) || !seen.insert(i) || (reliable && (i as i64) <= last) {
            return Err(v(
              "C13/sample-altered-or-out-of-order",
              format!("{form:?}: {who} was handed a sample that is not the next one written (index byte {i}, after #{last})"),
            ));
          }
          last = i as i64;
        }
      }
      // ---- epilogue: a HEARTBEAT alone makes a sample readable -----------------------------------------
      // The writer participant goes silent and a scripted peer speaks in its writer's name, the way a
      // writer with a bounded history does: a sample whose predecessor never comes, then a HEARTBEAT whose
      // first number says so (the hole closes, the sample becomes readable) and whose last number
      // announces one more sample that is not there yet.
      if reliable && ch(|c| c.chance(1, 2)) {
        stall_writer_node();
        let g = wguid.to_bytes();
        let base = n as i64 + 20; // well beyond anything the real writer has used
        let body = vec![0xe5u8, 1, 2, 3];
        let payload = if no_key { blob_payload(&body) } else { msg_payload(7, &body) };
        send_as(&g, vec![data_sub(&g, base + 1, payload)], false, 100_000);
        for _ in 0..3 {
          app_step(&mut got, &mut polls, false, 5 * MS)?;
          sib_step(false, &mut got2, &mut polls2)?;
        }
        let (b1, b2) = (got.len(), got2.len());
        send_as(&g, vec![hb_sub(&g, base + 1, base + 2, 1_000_000, ch(|c| c.flag()))], false, 100_000);
        for _ in 0..4 {
          app_step(&mut got, &mut polls, false, 5 * MS)?;
          sib_step(false, &mut got2, &mut polls2)?;
        }
        let (c1, c2) = (got.len(), got2.len());
        app_step(&mut got, &mut polls, true, 0)?;
        sib_step(true, &mut got2, &mut polls2)?;
        if got.len() > c1 || got2.len() > c2 {
          return Err(v(
            "C13/wake-up-lost",
            format!(
              "{form:?} (sibling={with_sibling}): a HEARTBEAT closed the hole in front of a sample that had arrived before (and announced one more): the sample became readable, the parked {} was not woken; an unconditional look found it",
              if got.len() > c1 { "application" } else { "task of the second reader" }
            ),
          ));
        }
        if c1 > b1 {
          e2::count("probe.sample_made_readable_by_heartbeat_delivered");
        }
        let _ = (b2, c2);
      }
      nontrivial = true;
      fp.u64(polls).u64(wakes);
      let _ = (&mut stream, &mut poll08);
    }
    // ================================ writer-side completion signals ====================================
    Form::AsyncWrite => {
      let w = dw_k.as_ref().unwrap();
      // the event loop of the writer participant is busy elsewhere: the command queue (16) fills up
      e2::with(|st| {
        st.stalled.insert(WNODE);
      });
      let mut pending: Option<Pin<Box<dyn Future<Output = Result<(), String>> + '_>>> = None;
      let mut sent = 0usize;
      let waker = futures::task::waker(flag.clone());
      let mut cx = Context::from_waker(&waker);
      for i in 0..40 {
        simcore::set_node(WNODE);
        let mut f: Pin<Box<dyn Future<Output = Result<(), String>> + '_>> = Box::pin(async move {
          w.async_write(Msg { k: i as u32, v: vec![i as u8; 8] }, None).await.map_err(|e| format!("{e:?}"))
        });
        match f.as_mut().poll(&mut cx) {
          Poll::Ready(Ok(())) => sent += 1,
          Poll::Ready(Err(e)) => return Err(v("C13/async-write-failed", format!("write #{i} failed at once: {e}"))),
          Poll::Pending => {
            pending = Some(f);
            break;
          }
        }
      }
      let mut f = match pending {
        Some(f) => f,
        None => return Err(v("HARNESS-ERROR/c13-queue-never-full", format!("{sent} writes went into the queue of a stalled event loop"))),
      };
      e2::log(&format!("{sent} writes queued, the next one is Pending"));
      flag.woken.store(false, Ordering::SeqCst);
      // the event loop comes back within the write's blocking time (100 ms)
      e2::run_for(ch(|c| *c.pick(&[MS, 20 * MS, 60 * MS])))?;
      e2::with(|st| {
        st.stalled.remove(&WNODE);
      });
      let deadline = simcore::now_ns() + 30 * SEC;
      let mut done = None;
      let mut polls = 0u64;
      while simcore::now_ns() < deadline {
        e2::run_for(ch(|c| *c.pick(&[100_000u64, MS, 10 * MS])))?;
        if flag.woken.swap(false, Ordering::SeqCst) {
          polls += 1;
          if let Poll::Ready(r) = f.as_mut().poll(&mut cx) {
            done = Some(r);
            break;
          }
        }
      }
      match done {
        Some(Ok(())) => {}
        Some(Err(e)) if e.contains("WouldBlock") => {} // woken, but too late for its blocking time: legitimate
        Some(Err(e)) => return Err(v("C13/async-write-failed", e)),
        None => {
          let r = f.as_mut().poll(&mut cx);
          return Err(v(
            "C13/wake-up-lost",
            format!(
              "AsyncWrite: the command queue has had room for 30 s, the pending write was never woken ({} wakes); polled unconditionally it answers {:?}",
              flag.wakes.load(Ordering::SeqCst),
              match r {
                Poll::Ready(x) => format!("Ready({x:?})"),
                Poll::Pending => "Pending".into(),
              }
            ),
          ));
        }
      }
      nontrivial = true;
      e2::count("probe.future_completed_after_pending");
      fp.u64(polls);
    }
    Form::AsyncWaitAck | Form::SyncWaitAck => {
      let w = dw_k.as_ref().unwrap();
      let rd_keep = match rd {
        Rd::K(r) => leak(r),
        _ => unreachable!(),
      };
      let _ = &rd_keep;
      // for the synchronous form: can the reader acknowledge at all? (decided before the writes)
      let cut = form == Form::SyncWaitAck && ch(|c| c.chance(1, 3));
      if cut {
        e2::with(|st| {
          st.faults_on = true;
          st.cut.insert((RNODE, WNODE));
          st.cut.insert((WNODE, RNODE));
        });
      }
      for i in 0..n.min(6) {
        if let Err(e) = write(i) {
          return Err(v("HARNESS-ERROR/c13-write", e));
        }
        if ch(|c| c.flag()) {
          e2::run_for(ch(|c| *c.pick(&[MS, 20 * MS])))?;
        }
      }
      if form == Form::SyncWaitAck {
        let timeout = ch(|c| *c.pick(&[500 * MS, 2 * SEC, 10 * SEC]));
        let t0 = simcore::now_ns();
        simcore::set_node(WNODE);
        let r = w.wait_for_acknowledgments(Duration::from_nanos(timeout)).map_err(|e| format!("{e:?}"));
        let took = simcore::now_ns() - t0;
        e2::log(&format!("wait_for_acknowledgments({} ms) -> {r:?} after {} ms (cut={cut})", timeout / MS, took / MS));
        match r {
          Err(e) => return Err(v("C13/sync-wait-failed", e)),
          Ok(true) => {
            if cut {
              return Err(v(
                "C13/sync-wait-true-without-acknowledgment",
                format!("wait_for_acknowledgments answered true although no datagram of the reader could reach the writer since the writes ({} ms)", took / MS),
              ));
            }
            if took > timeout + 10 * MS {
              return Err(v("C13/sync-wait-late", format!("answered true after {} ms with a timeout of {} ms", took / MS, timeout / MS)));
            }
          }
          Ok(false) => {
            if took + 10 * MS < timeout {
              return Err(v(
                "C13/sync-wait-gave-up-early",
                format!("answered false after {} ms, its timeout is {} ms", took / MS, timeout / MS),
              ));
            }
            if took > timeout + 200 * MS {
              return Err(v("C13/sync-wait-late", format!("answered false after {} ms with a timeout of {} ms", took / MS, timeout / MS)));
            }
            if !cut && !faulty && timeout >= 10 * SEC {
              return Err(v(
                "C13/sync-wait-missed-acknowledgment",
                format!("healthy network, reader alive: no acknowledgment seen within {} ms", timeout / MS),
              ));
            }
          }
        }
        nontrivial = true;
        fp.u64(took / MS);
      } else {
        let waker = futures::task::waker(flag.clone());
        let mut cx = Context::from_waker(&waker);
        // sometimes the wait is asked for while the command queue is full behind a busy event loop, and
        // the reader cannot be heard for a while: nothing is acknowledged, so the wait must stay pending
        let full_queue = ch(|c| c.chance(1, 3));
        if full_queue {
          e2::with(|st| {
            st.stalled.insert(WNODE);
            st.faults_on = true;
            st.cut.insert((RNODE, WNODE));
          });
          let mut filled = false;
          for i in 0..40u32 {
            simcore::set_node(WNODE);
            let mut wf: Pin<Box<dyn Future<Output = Result<(), String>> + '_>> = Box::pin(async move {
              w.async_write(Msg { k: 100 + i, v: vec![i as u8; 8] }, None).await.map_err(|e| format!("{e:?}"))
            });
            match wf.as_mut().poll(&mut cx) {
              Poll::Ready(Ok(())) => {}
              Poll::Ready(Err(e)) => return Err(v("C13/async-write-failed", format!("write #{i} failed at once: {e}"))),
              Poll::Pending => {
                filled = true;
                break; // the pending write is abandoned
              }
            }
          }
          if !filled {
            return Err(v("HARNESS-ERROR/c13-queue-never-full", "40 writes went into the queue of a stalled event loop".into()));
          }
          e2::count("op.wait_for_acknowledgments_with_full_queue");
        }
        simcore::set_node(WNODE);
        let mut f = Box::pin(w.async_wait_for_acknowledgments());
        flag.woken.store(false, Ordering::SeqCst);
        let mut polls = 1u64;
        let mut done = match f.as_mut().poll(&mut cx) {
          Poll::Ready(r) => Some(r),
          Poll::Pending => None,
        };
        if full_queue {
          e2::with(|st| {
            st.stalled.remove(&WNODE);
          });
          // 3 s in which the writer works again but cannot hear the reader
          let until = simcore::now_ns() + 3 * SEC;
          while simcore::now_ns() < until {
            if let Some(r) = &done {
              return Err(v(
                "C13/async-wait-true-without-acknowledgment",
                format!("async_wait_for_acknowledgments, asked for with a full command queue, answered {r:?} although no datagram of the reader could reach the writer since the writes"),
              ));
            }
            e2::run_for(ch(|c| *c.pick(&[MS, 10 * MS, 100 * MS])))?;
            if flag.woken.swap(false, Ordering::SeqCst) {
              polls += 1;
              if let Poll::Ready(r) = f.as_mut().poll(&mut cx) {
                done = Some(r);
              }
            }
          }
          if let Some(r) = &done {
            return Err(v(
              "C13/async-wait-true-without-acknowledgment",
              format!("async_wait_for_acknowledgments, asked for with a full command queue, answered {r:?} although no datagram of the reader could reach the writer since the writes"),
            ));
          }
          e2::with(|st| {
            st.cut.remove(&(RNODE, WNODE));
          });
        }
        let was_pending = done.is_none();
        e2::with(|st| {
          st.faults_on = false;
        });
        let deadline = simcore::now_ns() + 30 * SEC;
        while done.is_none() && simcore::now_ns() < deadline {
          e2::run_for(ch(|c| *c.pick(&[100_000u64, MS, 10 * MS, 100 * MS])))?;
          if flag.woken.swap(false, Ordering::SeqCst) {
            polls += 1;
            if let Poll::Ready(r) = f.as_mut().poll(&mut cx) {
              done = Some(r);
            }
          }
        }
        match done {
          Some(Ok(true)) => {}
          Some(other) => return Err(v("C13/async-wait-failed", format!("async_wait_for_acknowledgments answered {other:?} with a live reader on a healed network"))),
          None => {
            let r = f.as_mut().poll(&mut cx);
            return Err(v(
              "C13/wake-up-lost",
              format!(
                "AsyncWaitForAcknowledgments: 30 s on a healed network with a live reader and the pending future was never woken ({} wakes); polled unconditionally it answers {:?}",
                flag.wakes.load(Ordering::SeqCst),
                match r {
                  Poll::Ready(x) => format!("Ready({x:?})"),
                  Poll::Pending => "Pending".into(),
                }
              ),
            ));
          }
        }
        nontrivial = was_pending;
        if was_pending {
          e2::count("probe.future_completed_after_pending");
        }
        fp.u64(polls);
      }
    }
  }
  e2::with(|st| {
    st.ctx.nontrivial = nontrivial;
    st.ctx.state(fp.get());
  });
  Ok(())
}
