//! C17 — required protection cannot be bypassed by sending plaintext.
//!
//! Engine E3 (second part): the receiving side is a real E1 node
//! (`DPEventLoop` / `MessageReceiver` / `Reader`s / `Writer`s) of a secure
//! participant L, carrying the real builtin security plugins initialised from
//! governance and permissions fixtures.  The sending side R is a second,
//! authenticated set of plugins (handshake, permission validation and key
//! exchange done by direct plugin calls) that protects what the harness asks
//! it to protect.  The simulator owns the wire: it decides, message by
//! message, which submessages go out, with which protection (none, the right
//! one, the one of another endpoint pair), in which order (secure prefix /
//! body / postfix dropped, doubled, swapped, replayed from earlier messages,
//! plaintext inserted between them), with which bytes damaged, inside or
//! outside an RTPS-level wrapper.
//!
//! Oracle.  A reference model decides for every message and every endpoint of
//! L whether the message contains anything the endpoint may accept under its
//! governance settings (an over-approximation: intact protection made by R
//! with the keys of that endpoint pair, at every level the governance
//! demands).  An endpoint with a protection requirement that the message has
//! nothing acceptable for must be exactly as it was before the message
//! (matched-writer/reader proxies, counters, assembly buffers, receive cache).
//! Honest traffic for a topic without protection must arrive.

use std::collections::{BTreeMap, BTreeSet};

use rustdds::verif::{
  discovered_reader_of, discovered_writer_as, discovered_writer_of,
  pl::{self, Lease},
  secnode::{EndpointProtection, Protect, SecParty},
  LocalReader, LocalWriter, SimNode, WritePayload,
};

use super::Spec;
use crate::{
  ctx::{Check, Ctx, Violation},
  e1::*,
  wire::{self, Eid, Guid, Prefix, SnSet, Sub},
};

pub fn spec() -> Spec {
  Spec {
    id: "C17",
    engine: "E3 secsim + E1 rtps-core (a real MessageReceiver/Reader/Writer node with the real builtin security plugins of participant L; a second authenticated plugin set R protects scripted traffic; the simulator owns the wire)",
    level: "exploration",
    rule: "one case = one seeded run: a governance document (rtps_protection_kind from {NONE, SIGN, ENCRYPT, SIGN/ENCRYPT_WITH_ORIGIN_AUTHENTICATION}; topics with metadata protection NONE/SIGN/ENCRYPT/with origin authentication and data protection NONE/SIGN/ENCRYPT in 8 combinations), 2-5 readers and 0-2 writers of L on seed-chosen topics, matched with endpoints of the authenticated participant R (keys exchanged). 10-40 messages: DATA / DATAFRAG / HEARTBEAT / GAP for a reader (entity id explicit or unknown) and ACKNACK for a writer, INFO_TS / INFO_DST / INFO_SRC between them, each submessage unprotected, protected by R as the governance demands, or protected with the keys of another endpoint pair, payload likewise; then secure prefix / body / postfix dropped, doubled, swapped, replaced by parts of earlier messages, plaintext inserted, bytes of MACs / nonces / ciphertext / signed content flipped; the message goes out plain or inside R's RTPS-level protection (intact or damaged), under R's or another GUID prefix. Oracle: an endpoint whose governance demands protection (rtps, submessage or payload level) and for which the message contains nothing protected by R for exactly that endpoint pair at every demanded level is unchanged by the message (proxies, counters, assembly buffers, receive cache compared before/after); honest traffic for an unprotected topic is delivered. non-trivial = at least 3 messages that the model calls unacceptable for some protected endpoint; distinct = fingerprint of configuration and message shapes",
    quick_runs: 150_000,
    quick_secs: 150.0,
    thorough_runs: 3_000_000,
    thorough_secs: 1500.0,
    batch: 32,
    per_run_timeout_s: 20.0,
    real: &[
      "rtps::MessageReceiver incl. secure submessage state machine and all protection gates",
      "rtps::Reader, rtps::Writer, DPEventLoop handlers (engine E1)",
      "security::SecurityPlugins with AuthenticationBuiltin, AccessControlBuiltin (signed governance/permissions parsed), CryptographicBuiltin (key factory, key exchange, transform)",
      "all submessage (de)serialisers incl. the five security submessages",
    ],
    stub: &[
      "SecureDiscovery / Discovery: the sequence of plugin calls that authenticates, validates permissions, registers endpoints and exchanges key material is mirrored in /verif/facade/secnode.rs (no discovery traffic)",
      "DomainParticipant / Publisher / Subscriber front ends (registration of local endpoints with the plugins mirrored in the facade)",
      "kernel UDP, timers, clock as in engine E1",
      "getrandom (deterministic through the LD_PRELOAD interposer)",
    ],
    assumptions: &[
      "fixtures: /verif/fixtures/sec/c17 (governance per rtps protection kind, one permissions document; signed with the Permissions CA shipped in examples/security_configuration_files); identities p1, p2",
      "the three bootstrap endpoints exempted by the specification are not on the node: every reader and writer of L is a user endpoint",
      "the model over-approximates what may be accepted (e.g. it ignores the source GUID prefix, INFO_DST and the exact position of a secure triple among other submessages), so it never demands more than the property; what it under-approximates is nothing",
      "damaged bytes are placed where they are covered cryptographically (key id, session id, nonce, MAC, ciphertext, signed content); flipping bytes a receiver may ignore (unused flag bits, transformation kind) is C16's subject",
      "one reader per topic on L (readers of one topic share a receive cache, which would make a neighbour's delivery look like an effect)",
    ],
  }
}

fn v(class: &str, d: String) -> Violation {
  Violation::new(class, d)
}

fn pdata_for(guid: [u8; 16]) -> Vec<u8> {
  let mut prefix = [0u8; 12];
  prefix.copy_from_slice(&guid[..12]);
  let a = |p: u16| std::net::SocketAddr::V4(std::net::SocketAddrV4::new(std::net::Ipv4Addr::new(10, 0, 1, 1), p));
  pl::spdp_payload(prefix, Lease::Millis(10_000), &[a(7410)], &[], &[a(7411)], &[], true)[4..].to_vec()
}

const RTPS_KINDS: [&str; 5] = ["NONE", "SIGN", "ENCRYPT", "SIGN_WITH_ORIGIN_AUTHENTICATION", "ENCRYPT_WITH_ORIGIN_AUTHENTICATION"];
/// 8 user topics of the governance fixtures, then two built-in topics: participant discovery (one of
/// the three bootstrap topics the specification exempts from RTPS-level protection) and publication
/// discovery (not exempt)
const TOPICS: [&str; 10] = ["Tn", "Tms", "Tme", "Tmo", "Tds", "Tde", "Tb", "Tbs", "DCPSParticipant", "DCPSPublication"];
const USER_TOPICS: usize = 8;
const T_SPDP: usize = 8;
const T_SEDP_PUB: usize = 9;

fn reader_eid(t: usize) -> Eid {
  match t {
    T_SPDP => [0, 1, 0, 0xc7],
    T_SEDP_PUB => [0, 0, 3, 0xc7],
    _ => [0, 0, 0x30 + t as u8, 0x07],
  }
}

fn writer_eid(t: usize) -> Eid {
  match t {
    T_SPDP => [0, 1, 0, 0xc2],
    T_SEDP_PUB => [0, 0, 3, 0xc2],
    _ => [0, 0, 0x50 + t as u8, 0x02],
  }
}
/// what the signed governance fixtures say about each topic: (metadata protection, data protection)
const TOPIC_RULES: [(bool, bool); 10] =
  [(false, false), (true, false), (true, false), (true, false), (false, true), (false, true), (true, true), (true, true), (false, false), (false, false)];
const TYPE: &str = "X";
const UNKNOWN: Eid = [0, 0, 0, 0];

#[derive(Clone, Debug)]
struct Endpoint {
  topic: usize,
  is_reader: bool,
  guid: Guid,
  prot: EndpointProtection,
  /// R's endpoint matched with it
  peer: Guid,
  /// an endpoint of one of the three bootstrap topics: RTPS-level protection does not apply to it
  bootstrap: bool,
  next_sn: i64,
  hb_count: i32,
}

#[derive(Clone, Debug, PartialEq, Eq)]
enum PayEnc {
  NoPayload,
  Plain,
  By(Guid),
  Damaged,
}

/// a writer or reader submessage as it was built
#[derive(Clone, Debug)]
struct Rec {
  sub: Sub,
  pay: PayEnc,
}

#[derive(Clone, Debug)]
struct Triple {
  rec: usize,
  dests: Vec<Guid>,
  /// the body as R produced it (two triples around byte-identical submessages have interchangeable bodies)
  body: Vec<u8>,
}

#[derive(Clone, Debug, PartialEq, Eq)]
enum Tag {
  Interp,
  Plain(usize),
  Part(usize, u8),
}

#[derive(Clone, Debug)]
struct Blob {
  bytes: Vec<u8>,
  tag: Tag,
  damaged: bool,
}

/// split a message into its header and submessage blobs (own framing walk)
fn split(b: &[u8]) -> Option<(Vec<u8>, Vec<Vec<u8>>)> {
  if b.len() < 20 {
    return None;
  }
  let mut out = vec![];
  let mut pos = 20;
  while pos + 4 <= b.len() {
    let id = b[pos];
    let le = b[pos + 1] & 1 == 1;
    let l = if le { u16::from_le_bytes([b[pos + 2], b[pos + 3]]) } else { u16::from_be_bytes([b[pos + 2], b[pos + 3]]) } as usize;
    let end = if l == 0 && id != 0x01 && id != 0x09 { b.len() } else { pos + 4 + l };
    if end > b.len() {
      return None;
    }
    out.push(b[pos..end].to_vec());
    pos = end;
  }
  if pos != b.len() {
    return None;
  }
  Some((b[..20].to_vec(), out))
}

fn sub_reader_writer(s: &Sub) -> Option<(bool, Eid, Eid)> {
  // (is a writer submessage, reader id, writer id)
  match s {
    Sub::Data { reader, writer, .. }
    | Sub::DataFrag { reader, writer, .. }
    | Sub::Heartbeat { reader, writer, .. }
    | Sub::Gap { reader, writer, .. }
    | Sub::HeartbeatFrag { reader, writer, .. } => Some((true, *reader, *writer)),
    Sub::AckNack { reader, writer, .. } | Sub::NackFrag { reader, writer, .. } => Some((false, *reader, *writer)),
    _ => None,
  }
}

struct Rig {
  eps: Vec<Endpoint>,
  rtps_req: bool,
  recs: Vec<Rec>,
  triples: Vec<Triple>,
  pool: Vec<Blob>,
}

impl Rig {
  /// the endpoints of L a (plain) submessage is addressed to
  fn targets(&self, s: &Sub) -> Vec<usize> {
    let Some((to_reader, rid, wid)) = sub_reader_writer(s) else { return vec![] };
    self
      .eps
      .iter()
      .enumerate()
      .filter(|(_, e)| {
        if to_reader {
          e.is_reader && (rid == UNKNOWN || rid == wire::eid_of(&e.guid))
        } else {
          !e.is_reader && (wid == UNKNOWN || wid == wire::eid_of(&e.guid))
        }
      })
      .map(|(i, _)| i)
      .collect()
  }

  fn payload_ok(&self, r: &Rec, e: &Endpoint) -> bool {
    match &r.pay {
      PayEnc::NoPayload => true,
      PayEnc::Plain | PayEnc::Damaged => !e.prot.payload,
      PayEnc::By(w) => !e.prot.payload || *w == e.peer,
    }
  }

  fn plain_acceptable(&self, rec: usize, damaged: bool, acc: &mut BTreeSet<usize>) {
    let rec = &self.recs[rec];
    for e in self.targets(&rec.sub) {
      let ep = &self.eps[e];
      let pay_ok = if damaged && rec.pay != PayEnc::NoPayload { !ep.prot.payload } else { self.payload_ok(rec, ep) };
      if !ep.prot.submessage && pay_ok {
        acc.insert(e);
      }
    }
  }

  /// endpoints for which the message contains something they may accept (over-approximation)
  fn acceptable(&self, blobs: &[Blob], rtps_ok: bool) -> BTreeSet<usize> {
    let mut acc = BTreeSet::new();
    let mut i = 0;
    while i < blobs.len() {
      match &blobs[i].tag {
        Tag::Part(t, 0)
          if i + 2 < blobs.len()
            && blobs[i + 1].bytes == self.triples[*t].body
            && blobs[i + 2].tag == Tag::Part(*t, 2)
            && !blobs[i].damaged
            && !blobs[i + 2].damaged =>
        {
          let tr = &self.triples[*t];
          let rec = &self.recs[tr.rec];
          for e in self.targets(&rec.sub) {
            if tr.dests.contains(&self.eps[e].guid) && self.payload_ok(rec, &self.eps[e]) {
              acc.insert(e);
            }
          }
          // the state machine may be out of step (a dangling prefix before): a sign-only body is then
          // seen as a plain submessage
          if blobs[i + 1].bytes.first() != Some(&0x30) {
            self.plain_acceptable(tr.rec, false, &mut acc);
          }
          i += 3;
          continue;
        }
        Tag::Part(t, 1) if blobs[i].bytes.first() != Some(&0x30) => {
          // the body of a sign-only triple is the plain submessage
          self.plain_acceptable(self.triples[*t].rec, blobs[i].damaged, &mut acc);
        }
        Tag::Plain(r) => self.plain_acceptable(*r, blobs[i].damaged, &mut acc),
        _ => {}
      }
      i += 1;
    }
    // RTPS-level protection: demanded of everything but the bootstrap endpoints
    acc.retain(|e| rtps_ok || self.eps[*e].bootstrap);
    acc
  }
}

fn blob_name(b: &Blob, rig: &Rig) -> String {
  let d = if b.damaged { "!" } else { "" };
  match &b.tag {
    Tag::Interp => format!("interp{d}"),
    Tag::Plain(r) => format!("plain{d}[{} pay={:?}]", wire::sub_brief(&rig.recs[*r].sub), short_pay(&rig.recs[*r].pay)),
    Tag::Part(t, p) => format!(
      "{}{d}#{t}[{} pay={:?}]",
      ["prefix", "body", "postfix"][*p as usize],
      wire::sub_brief(&rig.recs[rig.triples[*t].rec].sub),
      short_pay(&rig.recs[rig.triples[*t].rec].pay)
    ),
  }
}

fn short_pay(p: &PayEnc) -> String {
  match p {
    PayEnc::NoPayload => "-".into(),
    PayEnc::Plain => "plain".into(),
    PayEnc::Damaged => "damaged".into(),
    PayEnc::By(g) => format!("by:{:02x}{:02x}", g[14], g[15]),
  }
}

/// flip one bit at a place that is covered cryptographically (or is signed content)
fn damage(b: &mut Blob, ctx: &mut Ctx) -> bool {
  let n = b.bytes.len();
  if b.damaged {
    return false; // a second flip could undo the first
  }
  let pos = match b.bytes[0] {
    0x31 | 0x33 if n >= 24 => 8 + ctx.ch.index(16),          // key id, session id, nonce
    0x32 | 0x34 if n >= 20 => 4 + ctx.ch.index(16),          // common MAC
    0x30 if n >= 12 => 8 + ctx.ch.index(n - 8),              // ciphertext
    0x15 if n >= 40 => n - 6,                                // DATA: inside the payload (or its footer)
    0x16 if n >= 48 => n - 6,                                // DATAFRAG
    0x07 | 0x08 | 0x06 | 0x12 | 0x13 if n >= 12 => n - 1 - ctx.ch.index(4), // count / bitmap
    _ => return false,
  };
  b.bytes[pos] ^= 1 << ctx.ch.index(8);
  b.damaged = true;
  true
}

pub fn run(_tier: &str, ctx: &mut Ctx) -> Check {
  let kind = RTPS_KINDS[ctx.ch.weighted(&[4, 2, 2, 1, 1])];
  let dir = "/verif/fixtures/sec/c17";
  let mut l = SecParty::new(&format!("{dir}/{kind}_p1"), [1, 2, 3, 4, 5, 6, 7, 8, 9, 10, 11, 1], 0).map_err(|e| v("HARNESS-ERROR/c17-party", e))?;
  let mut r = SecParty::new(&format!("{dir}/{kind}_p2"), [2, 2, 3, 4, 5, 6, 7, 8, 9, 10, 11, 2], 0).map_err(|e| v("HARNESS-ERROR/c17-party", e))?;
  l.set_participant_data(pdata_for(l.guid_of([0, 0, 1, 0xc1])));
  r.set_participant_data(pdata_for(r.guid_of([0, 0, 1, 0xc1])));
  SecParty::authenticate(&mut l, &mut r).map_err(|e| v("HARNESS-ERROR/c17-authenticate", e))?;
  // the model goes by what the signed documents say, not by what the plugins derived from them
  let rtps_req = kind != "NONE";
  if l.rtps_protected().map_err(|e| v("HARNESS-ERROR/c17-attrs", e))? != rtps_req {
    ctx.count("probe.plugin_attributes_differ_from_governance");
  }
  let (lp, rp): (Prefix, Prefix) = (l.prefix_bytes(), r.prefix_bytes());
  let mut node = SimNode::new_secure(1, &l, 0);
  let rq = qos(true, true, 0, false, 0);

  // ---- endpoints ---------------------------------------------------------------------------------
  let mut rig = Rig {
    eps: vec![],
    rtps_req,
    recs: vec![],
    triples: vec![],
    pool: vec![],
  };
  let mut readers: BTreeMap<usize, LocalReader> = BTreeMap::new();
  let mut writers: BTreeMap<usize, LocalWriter> = BTreeMap::new();
  let n_readers = ctx.ch.range(2, 5) as usize;
  let mut chosen: Vec<usize> = vec![];
  while chosen.len() < n_readers {
    let t = ctx.ch.index(USER_TOPICS);
    if !chosen.contains(&t) {
      chosen.push(t);
    }
  }
  // in a domain with RTPS-level protection: sometimes two built-in readers as well, one exempt, one not
  if rtps_req && ctx.ch.chance(1, 2) {
    chosen.push(T_SPDP);
    chosen.push(T_SEDP_PUB);
  }
  let mut fp = simcore::digest::Fnv::new();
  fp.str(kind);
  for &t in &chosen {
    let topic = TOPICS[t];
    let lr = l.guid_of(reader_eid(t));
    let rw = r.guid_of(writer_eid(t));
    let lprot = l.register_reader(lr, topic).map_err(|e| v("HARNESS-ERROR/c17-register", e))?;
    let wprot = r.register_writer(rw, topic).map_err(|e| v("HARNESS-ERROR/c17-register", e))?;
    let prot = EndpointProtection { submessage: TOPIC_RULES[t].0, payload: TOPIC_RULES[t].1 };
    if lprot != prot || wprot != prot {
      ctx.count("probe.plugin_attributes_differ_from_governance");
    }
    let keys = lprot.submessage || lprot.payload || wprot.submessage || wprot.payload;
    let reader = node.add_reader(reader_eid(t), topic, TYPE, &rq);
    SecParty::link(&r, rw, &l, lr, keys).map_err(|e| v("HARNESS-ERROR/c17-link", e))?;
    node.remote_writer_discovered(discovered_writer_of(&r, rw, topic, TYPE, &rq, &[node_addr(2)]));
    node.drain_discovery_commands();
    let matched = node.reader_view(&reader).map(|v| v.matched_writers.len()).unwrap_or(0);
    if matched != 1 {
      return Err(v("HARNESS-ERROR/c17-match", format!("{topic}: the reader of L has {matched} matched writers")));
    }
    readers.insert(rig.eps.len(), reader);
    rig.eps.push(Endpoint {
      topic: t,
      is_reader: true,
      guid: lr,
      prot,
      peer: rw,
      bootstrap: t == T_SPDP,
      next_sn: 1,
      hb_count: 0,
    });
    fp.str(topic);
  }
  // sometimes a writer of a third participant has the entity id of one of R's writers (entity ids are
  // unique per participant only) and is matched with the reader of a topic without submessage protection
  if ctx.ch.chance(1, 3) {
    let open: Vec<usize> = (0..rig.eps.len()).filter(|e| !rig.eps[*e].prot.submessage).collect();
    let closed: Vec<usize> = (0..rig.eps.len()).filter(|e| rig.eps[*e].prot.submessage).collect();
    if !open.is_empty() && !closed.is_empty() {
      let o = open[ctx.ch.index(open.len())];
      let c = closed[ctx.ch.index(closed.len())];
      let twin = wire::guid([0x33; 12], wire::eid_of(&rig.eps[c].peer));
      let topic = TOPICS[rig.eps[o].topic];
      node.remote_writer_discovered(discovered_writer_as(&r, rig.eps[o].peer, twin, topic, TYPE, &rq, &[node_addr(3)]));
      node.drain_discovery_commands();
      let matched = node.reader_view(&readers[&o]).map(|v| v.matched_writers.len()).unwrap_or(0);
      if matched != 2 {
        return Err(v("HARNESS-ERROR/c17-match", format!("{topic}: the twin writer was not matched ({matched} matched writers)")));
      }
      ctx.count("op.twin_writer_entity_id");
      fp.str("twin");
    }
  }
  let n_writers = ctx.ch.weighted(&[2, 3, 1]);
  for k in 0..n_writers {
    let t = chosen[k % n_readers];
    let topic = TOPICS[t];
    let lw = l.guid_of([0, 0, 0x60 + t as u8, 0x02]);
    let rr = r.guid_of([0, 0, 0x70 + t as u8, 0x07]);
    let lprot = l.register_writer(lw, topic).map_err(|e| v("HARNESS-ERROR/c17-register", e))?;
    let rprot = r.register_reader(rr, topic).map_err(|e| v("HARNESS-ERROR/c17-register", e))?;
    let prot = EndpointProtection { submessage: TOPIC_RULES[t].0, payload: TOPIC_RULES[t].1 };
    let keys = lprot.submessage || lprot.payload || rprot.submessage || rprot.payload;
    let mut writer = node.add_writer([0, 0, 0x60 + t as u8, 0x02], topic, &rq);
    SecParty::link(&l, lw, &r, rr, keys).map_err(|e| v("HARNESS-ERROR/c17-link", e))?;
    node.remote_reader_discovered(discovered_reader_of(&r, rr, topic, TYPE, &rq, &[node_addr(2)]));
    node.drain_discovery_commands();
    for sn in 1..=3i64 {
      let p = payload_for(100 + t as u32, sn, 16);
      writer.write(WritePayload::Data { rep_id: [0, 1], value: p[4..].to_vec() }, None, None);
      node.writer_command(&writer);
    }
    writers.insert(rig.eps.len(), writer);
    rig.eps.push(Endpoint {
      topic: t,
      is_reader: false,
      guid: lw,
      prot,
      peer: rr,
      bootstrap: false,
      next_sn: 0,
      hb_count: 0,
    });
  }
  let _ = simcore::take_outbox();

  let state_of = |node: &SimNode, readers: &BTreeMap<usize, LocalReader>, writers: &BTreeMap<usize, LocalWriter>, e: usize| -> String {
    if let Some(rd) = readers.get(&e) {
      format!("{:?} | {:?}", node.reader_view(rd), rd.cache_view())
    } else {
      format!("{:?}", node.writer_view(&writers[&e]))
    }
  };

  // ---- messages ----------------------------------------------------------------------------------
  let steps = ctx.ch.range(10, 40);
  let mut unacceptable_msgs = 0u64;
  let mut ack_count = 0i32;
  for step in 0..steps {
    // sometimes time passes (heartbeat responses, repairs go out)
    if ctx.ch.chance(1, 6) {
      simcore::advance_by(100_000_000);
      node.fire_timers();
      let _ = simcore::take_outbox();
    }
    let honest = ctx.ch.chance(1, 3) || step == 0;
    let n_el = if honest { 1 } else { ctx.ch.range(1, 4) as usize };
    let mut subs: Vec<Sub> = vec![];
    let mut plan: Vec<Protect> = vec![];
    let mut tags: Vec<(Tag, bool)> = vec![]; // (tag of the element, wrapped?)
    let mut honest_expect: Option<(usize, i64, Vec<u8>)> = None;
    for _ in 0..n_el {
      // interpreter submessages in between
      if !honest && ctx.ch.chance(1, 4) {
        let s = match ctx.ch.index(4) {
          0 => Sub::InfoTs { ticks: Some(simcore::now_ns() / 1000) },
          1 => Sub::InfoDst { prefix: if ctx.ch.chance(2, 3) { lp } else { [0u8; 12] } },
          2 => Sub::InfoDst { prefix: [7u8; 12] },
          _ => Sub::InfoSrc { prefix: if ctx.ch.chance(2, 3) { rp } else { [9u8; 12] } },
        };
        subs.push(s);
        plan.push(Protect::default());
        tags.push((Tag::Interp, false));
      }
      let e = ctx.ch.index(rig.eps.len());
      let ep = rig.eps[e].clone();
      let unknown_id = !honest && ctx.ch.chance(1, 4);
      let (sub, has_payload) = if ep.is_reader {
        let rid = if unknown_id { UNKNOWN } else { wire::eid_of(&ep.guid) };
        let wid = wire::eid_of(&ep.peer);
        match if honest { 0 } else { ctx.ch.weighted(&[5, 2, 2, 2]) } {
          0 => {
            // the next sequence number the reader has no knowledge of (received, or told to be irrelevant)
            let fresh = node
              .reader_view(&readers[&e])
              .and_then(|v| v.matched_writers.iter().find(|w| w.writer == ep.peer).map(|w| w.changes.iter().map(|c| c.0 + 1).max().unwrap_or(1).max(w.ack_base)))
              .unwrap_or(1)
              .max(ep.next_sn);
            rig.eps[e].next_sn = fresh;
            let ep = rig.eps[e].clone();
            let sn = if honest || ctx.ch.chance(3, 4) { ep.next_sn } else { ep.next_sn + 1 + ctx.ch.index(3) as i64 };
            let p = payload_for(ep.topic as u32, sn, 12 + 4 * ctx.ch.index(3));
            if honest {
              honest_expect = Some((e, sn, p.clone()));
            }
            (
              Sub::Data {
                reader: rid,
                writer: wid,
                sn,
                inline_qos: None,
                has_data: true,
                has_key: false,
                payload: Some(p),
              },
              true,
            )
          }
          1 => {
            rig.eps[e].hb_count += 1;
            (
              Sub::Heartbeat {
                reader: rid,
                writer: wid,
                first: 1,
                last: ep.next_sn + ctx.ch.index(3) as i64,
                count: rig.eps[e].hb_count,
                final_flag: ctx.ch.chance(1, 2),
                liveliness: false,
              },
              false,
            )
          }
          2 => (
            Sub::Gap {
              reader: rid,
              writer: wid,
              start: ep.next_sn,
              list: SnSet::empty(ep.next_sn + 1 + ctx.ch.index(2) as i64),
            },
            false,
          ),
          _ => {
            let sn = ep.next_sn + ctx.ch.index(2) as i64;
            let whole = payload_for(ep.topic as u32 + 50, sn, 28);
            let first = ctx.ch.chance(1, 2);
            (
              Sub::DataFrag {
                reader: rid,
                writer: wid,
                sn,
                frag_start: if first { 1 } else { 2 },
                frags_in_sub: 1,
                frag_size: 16,
                sample_size: whole.len() as u32,
                inline_qos: None,
                has_key: false,
                payload: if first { whole[..16].to_vec() } else { whole[16..].to_vec() },
              },
              true,
            )
          }
        }
      } else {
        ack_count += 1;
        let base = 1 + ctx.ch.index(4) as i64;
        (
          Sub::AckNack {
            reader: wire::eid_of(&ep.peer),
            writer: if unknown_id { UNKNOWN } else { wire::eid_of(&ep.guid) },
            state: if ctx.ch.chance(1, 2) { SnSet::empty(base) } else { SnSet::from_members(base, &[base]) },
            count: ack_count,
            final_flag: ctx.ch.chance(1, 2),
          },
          false,
        )
      };
      // which protection R applies
      let other: Option<Endpoint> = {
        let c: Vec<&Endpoint> = rig.eps.iter().filter(|o| o.guid != ep.guid && o.is_reader == ep.is_reader && (o.prot.submessage || o.prot.payload)).collect();
        if c.is_empty() { None } else { Some(c[ctx.ch.index(c.len())].clone()) }
      };
      let sub_mode = if honest { if ep.prot.submessage { 1 } else { 0 } } else { ctx.ch.weighted(&[4, 3, 2]) };
      let pay_mode = if !has_payload { 0 } else if honest { if ep.prot.payload { 1 } else { 0 } } else { ctx.ch.weighted(&[4, 3, 2]) };
      let mut p = Protect::default();
      let mut pay = if has_payload { PayEnc::Plain } else { PayEnc::NoPayload };
      match pay_mode {
        1 if ep.prot.payload => {
          p.payload_as = Some(ep.peer);
          pay = PayEnc::By(ep.peer);
        }
        2 => {
          if let Some(o) = other.as_ref().filter(|o| o.prot.payload) {
            p.payload_as = Some(o.peer);
            pay = PayEnc::By(o.peer);
          }
        }
        _ => {}
      }
      let mut wrapped_for: Option<Vec<Guid>> = None;
      match sub_mode {
        1 if ep.prot.submessage => {
          p.submessage_as = Some((ep.peer, vec![ep.guid]));
          wrapped_for = Some(vec![ep.guid]);
        }
        2 => {
          if let Some(o) = other.as_ref().filter(|o| o.prot.submessage) {
            p.submessage_as = Some((o.peer, vec![o.guid]));
            wrapped_for = Some(vec![o.guid]);
          }
        }
        _ => {}
      }
      rig.recs.push(Rec { sub: sub.clone(), pay });
      let rec = rig.recs.len() - 1;
      subs.push(sub);
      plan.push(p);
      match wrapped_for {
        Some(dests) => {
          rig.triples.push(Triple { rec, dests, body: vec![] });
          tags.push((Tag::Part(rig.triples.len() - 1, 0), true));
        }
        None => tags.push((Tag::Plain(rec), false)),
      }
    }
    // R protects (submessage and payload level)
    let plain_msg = wire::encode_msg(&rp, &subs, false);
    let protected = match r.protect(&plain_msg, &plan, None) {
      Ok(b) => b,
      Err(e) => return Err(v("HARNESS-ERROR/c17-protect", format!("{e}; message {}", wire::msg_brief(&plain_msg)))),
    };
    let Some((_hdr, raw)) = split(&protected) else {
      return Err(v("HARNESS-ERROR/c17-split", "protected message cannot be framed".into()));
    };
    let mut blobs: Vec<Blob> = vec![];
    let mut it = raw.into_iter().peekable();
    for (tag, wrapped) in &tags {
      // (a plugin that does not consider the endpoint protected hands the submessage back unencoded)
      if *wrapped && it.peek().map(|b| b[0]) != Some(0x31) {
        let Tag::Part(t, _) = tag else { unreachable!() };
        match it.next() {
          Some(bytes) => blobs.push(Blob { bytes, tag: Tag::Plain(rig.triples[*t].rec), damaged: false }),
          None => return Err(v("HARNESS-ERROR/c17-split", "fewer submessages than planned".into())),
        }
      } else if *wrapped {
        let Tag::Part(t, _) = tag else { unreachable!() };
        for part in 0..3u8 {
          match it.next() {
            Some(bytes) => {
              if part == 1 {
                rig.triples[*t].body = bytes.clone();
              }
              blobs.push(Blob { bytes, tag: Tag::Part(*t, part), damaged: false })
            }
            None => return Err(v("HARNESS-ERROR/c17-split", "fewer submessages than planned".into())),
          }
        }
        // a sign-only transformation may leave the submessage unencoded when the writer is not protected
      } else {
        match it.next() {
          Some(bytes) => blobs.push(Blob { bytes, tag: tag.clone(), damaged: false }),
          None => return Err(v("HARNESS-ERROR/c17-split", "fewer submessages than planned".into())),
        }
      }
    }
    if it.next().is_some() {
      return Err(v("HARNESS-ERROR/c17-split", "more submessages than planned".into()));
    }
    for b in &blobs {
      if matches!(b.tag, Tag::Part(..)) {
        rig.pool.push(b.clone());
      }
    }
    // ---- the simulator's wire: sequencing and damage ---------------------------------------------
    let mut mutated = false;
    if !honest {
      let n_mut = ctx.ch.weighted(&[3, 4, 2, 1]);
      for _ in 0..n_mut {
        if blobs.is_empty() {
          break;
        }
        mutated = true;
        match ctx.ch.weighted(&[3, 1, 2, 2, 2, 3, 2]) {
          0 => {
            let i = ctx.ch.index(blobs.len());
            blobs.remove(i);
            ctx.count("fault.submessage_dropped");
          }
          1 => {
            let i = ctx.ch.index(blobs.len());
            let b = blobs[i].clone();
            blobs.insert(i, b);
            ctx.count("fault.submessage_doubled");
          }
          2 => {
            if blobs.len() >= 2 {
              let i = ctx.ch.index(blobs.len() - 1);
              blobs.swap(i, i + 1);
              ctx.count("fault.submessages_swapped");
            }
          }
          3 => {
            if !rig.pool.is_empty() {
              let b = rig.pool[ctx.ch.index(rig.pool.len())].clone();
              let i = ctx.ch.index(blobs.len() + 1);
              blobs.insert(i, b);
              ctx.count("fault.part_of_earlier_message_inserted");
            }
          }
          4 => {
            if !rig.pool.is_empty() {
              let b = rig.pool[ctx.ch.index(rig.pool.len())].clone();
              let i = ctx.ch.index(blobs.len());
              blobs[i] = b;
              ctx.count("fault.part_replaced_by_earlier_one");
            }
          }
          6 => {
            // a wrapper made up by somebody without keys: a prefix seen on the wire (its key id travels in
            // clear) with a transformation kind of his choice, around a plain submessage, closed by a
            // postfix seen on the wire or an empty one
            let prefixes: Vec<&Blob> = rig.pool.iter().filter(|b| matches!(b.tag, Tag::Part(_, 0))).collect();
            let plains: Vec<usize> = (0..blobs.len()).filter(|i| matches!(blobs[*i].tag, Tag::Plain(_))).collect();
            if !prefixes.is_empty() && !plains.is_empty() {
              let mut pre = prefixes[ctx.ch.index(prefixes.len())].clone();
              let postfixes: Vec<&Blob> = rig.pool.iter().filter(|b| matches!(b.tag, Tag::Part(_, 2))).collect();
              let mut post = postfixes[ctx.ch.index(postfixes.len())].clone();
              if pre.bytes.len() >= 8 {
                let k = ctx.ch.index(5) as u8; // transformation kind NONE / GMAC / GCM (128, 256)
                if pre.bytes[7] != k {
                  pre.bytes[7] = k;
                  pre.damaged = true;
                }
              }
              if ctx.ch.chance(1, 2) && post.bytes.len() >= 20 {
                for b in post.bytes[4..20].iter_mut() {
                  *b = 0;
                }
                post.damaged = true;
              }
              let i = plains[ctx.ch.index(plains.len())];
              blobs.insert(i + 1, post);
              blobs.insert(i, pre);
              ctx.count("fault.forged_wrapper_around_plaintext");
            }
          }
          _ => {
            let i = ctx.ch.index(blobs.len());
            if damage(&mut blobs[i], ctx) {
              // damage inside the payload of a DATA counts against the payload protection only
              ctx.count("fault.bit_flipped");
            }
          }
        }
      }
    }
    // ---- message level ------------------------------------------------------------------------------
    let src: Prefix = if honest || ctx.ch.chance(5, 6) { rp } else { [9u8; 12] };
    let mut bytes = wire::encode_header(&src);
    for b in &blobs {
      bytes.extend_from_slice(&b.bytes);
    }
    let honest_bootstrap = honest && honest_expect.as_ref().map_or(false, |(e, _, _)| rig.eps[*e].bootstrap);
    let want_wrap = if honest_bootstrap { ctx.ch.chance(1, 2) } else if honest { rtps_req } else { ctx.ch.chance(1, 2) };
    let mut rtps_wrapped = false;
    if want_wrap && rtps_req && src == rp {
      if let Ok(w) = r.protect(&bytes, &[], Some(&[lp])) {
        if w.get(20) == Some(&0x33) {
          bytes = w;
          rtps_wrapped = true;
        }
      }
    }
    let mut wrap_damaged = false;
    if rtps_wrapped && !honest && ctx.ch.chance(1, 5) {
      if let Some((hdr, mut parts)) = split(&bytes) {
        let i = ctx.ch.index(parts.len());
        let mut b = Blob { bytes: std::mem::take(&mut parts[i]), tag: Tag::Interp, damaged: false };
        if damage(&mut b, ctx) {
          wrap_damaged = true;
          ctx.count("fault.rtps_wrapper_damaged");
        }
        parts[i] = b.bytes;
        bytes = hdr;
        for p in parts {
          bytes.extend_from_slice(&p);
        }
      }
    }
    let rtps_ok = !rtps_req || (rtps_wrapped && !wrap_damaged);
    let acc = rig.acceptable(&blobs, rtps_ok);
    let protected_eps: Vec<usize> = (0..rig.eps.len()).filter(|e| rig.rtps_req || rig.eps[*e].prot.submessage || rig.eps[*e].prot.payload).collect();
    let watch: Vec<usize> = protected_eps.iter().copied().filter(|e| !acc.contains(e)).collect();
    let before: Vec<String> = watch.iter().map(|e| state_of(&node, &readers, &writers, *e)).collect();
    ctx.logf(|| {
      format!(
        "message {step}{}: src={} rtps={} [{}] acceptable for {:?}",
        if honest { " (honest)" } else { "" },
        if src == rp { "R" } else { "other" },
        if rtps_wrapped { if wrap_damaged { "wrapped, damaged" } else { "wrapped" } } else { "plain" },
        blobs.iter().map(|b| blob_name(b, &rig)).collect::<Vec<_>>().join(", "),
        acc.iter().map(|e| TOPICS[rig.eps[*e].topic]).collect::<Vec<_>>()
      )
    });
    ctx.logf(|| format!("  bytes {}", bytes.iter().map(|x| format!("{x:02x}")).collect::<String>()));
    node.deliver(&bytes);
    node.pump_acknacks();
    let _ = simcore::take_outbox();
    if !watch.is_empty() && (mutated || !honest) {
      unacceptable_msgs += 1;
    }
    for (k, e) in watch.iter().enumerate() {
      let after = state_of(&node, &readers, &writers, *e);
      if after != before[k] {
        let ep = &rig.eps[*e];
        return Err(v(
          "C17/unprotected-traffic-reached-protected-endpoint",
          format!(
            "rtps_protection_kind={kind}; the {} of topic {} (submessage protection {}, payload protection {}) changed state on a message that contains nothing protected for it: [{}], sent {} under {} prefix; before: {} after: {}",
            if ep.is_reader { "reader" } else { "writer" },
            TOPICS[ep.topic],
            ep.prot.submessage,
            ep.prot.payload,
            blobs.iter().map(|b| blob_name(b, &rig)).collect::<Vec<_>>().join(", "),
            if rtps_wrapped { "inside R's RTPS protection" } else { "without RTPS protection" },
            if src == rp { "R's" } else { "another" },
            &before[k][..before[k].len().min(400)],
            &after[..after.len().min(400)],
          ),
        ));
      }
    }
    // honest traffic
    if let Some((e, sn, payload)) = honest_expect {
      let ep = rig.eps[e].clone();
      let got = readers[&e].cache_view().changes.iter().any(|c| {
        c.writer == ep.peer
          && c.sn == sn
          && match &c.data {
            rustdds::verif::ChangeData::Data { value, .. } => eq_mod_padding(value, &payload[4..]),
            _ => false,
          }
      });
      let unprotected_topic = !ep.prot.submessage && !ep.prot.payload;
      if got {
        rig.eps[e].next_sn = sn + 1;
        ctx.count(if unprotected_topic { "probe.honest_unprotected_delivered" } else { "probe.honest_protected_delivered" });
      } else if ep.bootstrap {
        return Err(v(
          "C17/bootstrap-traffic-blocked",
          format!("rtps_protection_kind={kind}: honest DATA sn {sn} for the participant discovery reader (exempt from RTPS-level protection), sent {}, was not delivered", if rtps_wrapped { "inside R's RTPS protection" } else { "without RTPS protection" }),
        ));
      } else if unprotected_topic {
        return Err(v(
          "C17/unprotected-traffic-blocked",
          format!("rtps_protection_kind={kind}: honest DATA sn {sn} for the reader of the unprotected topic {} was not delivered", TOPICS[ep.topic]),
        ));
      } else if step == 0 {
        return Err(v(
          "HARNESS-ERROR/c17-rig",
          format!("rtps_protection_kind={kind}: the first honest, fully protected DATA for topic {} was not delivered: the rig's key exchange does not work", TOPICS[ep.topic]),
        ));
      } else {
        ctx.count("probe.honest_protected_not_delivered");
      }
    } else {
      // keep the model's idea of the next sequence number in step with what was accepted
      for (e, rd) in &readers {
        let ep = rig.eps[*e].clone();
        let max = rd.cache_view().changes.iter().filter(|c| c.writer == ep.peer).map(|c| c.sn).max().unwrap_or(0);
        if max + 1 > rig.eps[*e].next_sn {
          rig.eps[*e].next_sn = max + 1;
        }
      }
    }
    fp.u64(blobs.len() as u64 ^ ((rtps_wrapped as u64) << 8) ^ ((acc.len() as u64) << 12));
  }
  ctx.nontrivial = unacceptable_msgs >= 3;
  ctx.add("messages", steps as u64);
  ctx.state(fp.get());
  Ok(())
}
