//! C19 — only CA-issued identities authenticate; forgeries cannot block them.
//!
//! Engine E3: real `AuthenticationBuiltin` plugin instances as communicating
//! parties.  Two participants with identities issued by the configured
//! Identity CA run the three-message handshake through a channel the
//! simulator owns: at every delivery point the seed decides whether the
//! genuine message arrives, an altered copy arrives first, an earlier message
//! is replayed, messages arrive out of order, or a forgery built by a
//! participant with a foreign-CA certificate arrives.

use rustdds::verif::{
  pl::{self, Lease},
  sec::{forge_final, AuthParty, Outcome, Token},
};

use super::Spec;
use crate::ctx::{Check, Ctx, Violation};

pub fn spec() -> Spec {
  Spec {
    id: "C19",
    engine: "E3 secsim (two or three real AuthenticationBuiltin plugin instances, identities from fixture files, exchanging handshake tokens through a simulator-owned channel)",
    level: "exploration",
    rule: "one case = one seeded run: participants A and B (certificates issued by the configured Identity CA) run validate_remote_identity / begin_handshake_request / begin_handshake_reply / process_handshake; before each of the three genuine messages is delivered the seed injects 0-3 of: a copy with one field altered (one byte flipped, truncated, emptied, removed, replaced by the same field of another message, class id changed), a replay of an earlier message of this or an earlier session, the wrong message for this point (out of order), a message of a participant whose certificate comes from a foreign CA (same subject names), a participant data blob whose GUID is not the one bound to the certificate. Oracle: a call answers Ok / OkFinalMessage / PendingHandshakeMessage-with-reply only for the genuine message of the running session; a rejected message leaves the party able to complete with the genuine one (in the same session, or after the handshake is started again); when both sides are done their shared secrets and challenges are identical; the foreign-CA participant and the unbound GUID never get a reply or a completion. non-trivial = at least one injected message was processed by a plugin; distinct = fingerprint of injection kinds, fields and outcomes",
    quick_runs: 100_000,
    quick_secs: 150.0,
    thorough_runs: 3_000_000,
    thorough_secs: 1800.0,
    batch: 8,
    per_run_timeout_s: 60.0,
    real: &[
      "security::authentication::AuthenticationBuiltin (validate_local_identity, validate_remote_identity, begin_handshake_request, begin_handshake_reply, process_handshake, get_shared_secret), certificate and signature verification, DH key agreement (ring / x509 crates)",
      "SpdpDiscoveredParticipantData PL_CDR (de)serialisation for c.pdata",
    ],
    stub: &[
      "the transport between the participants (tokens are handed over by the simulator; Discovery's ParticipantStatelessMessage plumbing, resend timers and the crypto/access-control plugins are not part of this engine)",
      "OS randomness (deterministic interposer): nonces and ephemeral keys are a function of the seed's position in the stream",
    ],
    assumptions: &[
      "fixtures: /verif/fixtures/sec/p1 (participant1, shipped certificate), p2 (participant2, issued with the shipped Identity CA key), foreign (same subject, issued by another CA)",
      "an altered message is one whose class id or any binary property differs from what the peer produced for this session",
    ],
  }
}

fn v(class: &str, d: String) -> Violation {
  Violation::new(class, d)
}

fn pdata_for(guid: [u8; 16]) -> Vec<u8> {
  let mut prefix = [0u8; 12];
  prefix.copy_from_slice(&guid[..12]);
  let n = prefix[11] as u32;
  let a = |p: u16| std::net::SocketAddr::V4(std::net::SocketAddrV4::new(std::net::Ipv4Addr::new(10, 0, n as u8, 1), p));
  // the plugin reads c.pdata as a big-endian parameter list without representation header
  pl::spdp_payload(prefix, Lease::Millis(10_000), &[a(7410)], &[], &[a(7411)], &[], true)[4..].to_vec()
}

#[derive(Clone, Copy, Debug, PartialEq, Eq)]
enum Step {
  Request, // initiator -> replier
  Reply,   // replier -> initiator
  Final,   // initiator -> replier
}

struct Session {
  init_is_a: bool,
  hs_init: u32,
  hs_repl: Option<u32>,
  m1: Token,
  m2: Option<Token>,
  m3: Option<Token>,
}

struct World {
  a: AuthParty,
  b: AuthParty,
  /// A's handle for B and B's handle for A
  a_sees_b: u32,
  b_sees_a: u32,
  pa: Vec<u8>,
  pb: Vec<u8>,
  /// every genuine message ever produced (for replays), with the step it belongs to
  seen: Vec<(Step, Token)>,
  injected: u64,
  fp: simcore::digest::Fnv,
}

fn alter(t: &Token, other: Option<&Token>, ctx: &mut Ctx) -> (Token, String) {
  let mut m = t.clone();
  if m.bin.is_empty() || ctx.ch.chance(1, 12) {
    m.class_id.push('x');
    return (m, "class id changed".into());
  }
  let i = ctx.ch.index(m.bin.len());
  let name = m.bin[i].0.clone();
  let kind = ctx.ch.weighted(&[6, 2, 1, 2, 3]);
  let d = match kind {
    0 => {
      if m.bin[i].1.is_empty() {
        m.bin[i].1.push(1);
      } else {
        let j = ctx.ch.index(m.bin[i].1.len());
        m.bin[i].1[j] ^= 1 << ctx.ch.draw(8);
      }
      format!("one bit of {name} flipped")
    }
    1 => {
      let n = ctx.ch.draw(m.bin[i].1.len() as u64 + 1) as usize;
      if n == m.bin[i].1.len() {
        m.bin[i].1.push(0);
      } else {
        m.bin[i].1.truncate(n);
      }
      format!("{name} cut to {n} bytes")
    }
    2 => {
      // DDS Security 1.1 tables 49-51: hash_c1, hash_c2 (and dh1 in the reply, dh1/dh2 in the final
      // message) are optional, informational copies; leaving one out is not an alteration of substance
      let optional = matches!(name.as_str(), "hash_c1" | "hash_c2" | "ocsp_status")
        || (!t.class_id.ends_with("+Req") && matches!(name.as_str(), "dh1"))
        || (t.class_id.ends_with("+Final") && matches!(name.as_str(), "dh2"));
      if optional {
        m.class_id.push('z');
        format!("class id changed (instead of removing the optional {name})")
      } else {
        m.bin.remove(i);
        format!("{name} removed")
      }
    }
    3 => {
      m.bin[i].1 = vec![];
      format!("{name} emptied")
    }
    _ => match other.and_then(|o| o.bin.iter().find(|(n, v2)| *n == name && *v2 != m.bin[i].1)) {
      Some((_, v2)) => {
        m.bin[i].1 = v2.clone();
        format!("{name} replaced by the one of another message")
      }
      None => {
        let mut x = m.bin[i].1.clone();
        x.reverse();
        if x == m.bin[i].1 {
          x.push(7);
        }
        m.bin[i].1 = x;
        format!("{name} reversed")
      }
    },
  };
  if m == *t {
    m.class_id.push('y');
  }
  (m, d)
}

impl World {
  fn party(&mut self, is_a: bool) -> &mut AuthParty {
    if is_a {
      &mut self.a
    } else {
      &mut self.b
    }
  }

  /// start (or start again) a session: the party that validate_remote_identity told to send the request does so
  fn start(&mut self, init_is_a: bool) -> Result<Session, String> {
    let (remote, pdata) = if init_is_a { (self.a_sees_b, self.pa.clone()) } else { (self.b_sees_a, self.pb.clone()) };
    let (o, hs, m1) = self.party(init_is_a).begin_request(remote, pdata)?;
    if o != Outcome::PendingHandshakeMessage {
      return Err(format!("begin_handshake_request answered {o:?}"));
    }
    self.seen.push((Step::Request, m1.clone()));
    Ok(Session {
      init_is_a,
      hs_init: hs,
      hs_repl: None,
      m1,
      m2: None,
      m3: None,
    })
  }

  /// hand a message to the party that is waiting at `step`; Ok(Some(reply)) / Ok(None)=completed / Err=rejected
  fn deliver(&mut self, s: &mut Session, step: Step, msg: &Token) -> Result<(Outcome, Option<Token>), String> {
    match step {
      Step::Request => {
        let (remote, pdata) = if s.init_is_a { (self.b_sees_a, self.pb.clone()) } else { (self.a_sees_b, self.pa.clone()) };
        let (o, hs, m2) = self.party(!s.init_is_a).begin_reply(msg, remote, pdata)?;
        s.hs_repl = Some(hs);
        Ok((o, Some(m2)))
      }
      Step::Reply => self.party(s.init_is_a).process(msg, s.hs_init),
      Step::Final => match s.hs_repl {
        Some(h) => self.party(!s.init_is_a).process(msg, h),
        None => Err("no handshake to process the final message in".into()),
      },
    }
  }
}

pub fn run(_tier: &str, ctx: &mut Ctx) -> Check {
  let dir = "/verif/fixtures/sec";
  let mk = |d: &str, tag: u8| AuthParty::new(&format!("{dir}/{d}"), [tag, 2, 3, 4, 5, 6, 7, 8, 9, 10, 11, tag]);
  let a = mk("p1", 1).map_err(|e| v("HARNESS-ERROR/c19-party", e))?;
  let b = mk("p2", 2).map_err(|e| v("HARNESS-ERROR/c19-party", e))?;
  let (ga, gb) = (a.guid_bytes(), b.guid_bytes());
  let ida = a.identity_token().map_err(|e| v("HARNESS-ERROR/c19-token", e))?;
  let idb = b.identity_token().map_err(|e| v("HARNESS-ERROR/c19-token", e))?;
  let mut w = World {
    a,
    b,
    a_sees_b: 0,
    b_sees_a: 0,
    pa: pdata_for(ga),
    pb: pdata_for(gb),
    seen: vec![],
    injected: 0,
    fp: simcore::digest::Fnv::new(),
  };
  let pfx = |g: [u8; 16]| {
    let mut p = [0u8; 12];
    p.copy_from_slice(&g[..12]);
    p
  };
  // sometimes the outsider was seen first (another remote in the plugins' tables, other handle values)
  let mut x0: Option<AuthParty> = None;
  let (mut a_sees_x, mut b_sees_x): (Option<u32>, Option<u32>) = (None, None);
  let early = ctx.ch.weighted(&[3, 1, 1, 1]);
  if early > 0 {
    let xdir0 = if ctx.ch.chance(1, 2) { "foreign1" } else { "foreign" };
    let xp = mk(xdir0, 9).map_err(|e| v("HARNESS-ERROR/c19-foreign", e))?;
    let gx = xp.guid_bytes();
    let idx = xp.identity_token().map_err(|e| v("HARNESS-ERROR/c19-token", e))?;
    if early & 1 == 1 {
      a_sees_x = w.a.see_remote(&idx, pfx(gx), None).ok().map(|(_, h, _)| h);
    }
    if early & 2 == 2 {
      b_sees_x = w.b.see_remote(&idx, pfx(gx), None).ok().map(|(_, h, _)| h);
    }
    x0 = Some(xp);
    ctx.count("probe.outsider_seen_first");
  }
  let _ = &x0;
  // the participants discover each other (identity tokens travel in SPDP)
  let (oa, hb, req_a) = w.a.see_remote(&idb, pfx(gb), None).map_err(|e| v("C19/genuine-identity-refused", e))?;
  let (ob, ha, _req_b) = w.b.see_remote(&ida, pfx(ga), req_a.as_ref()).map_err(|e| v("C19/genuine-identity-refused", e))?;
  w.a_sees_b = hb;
  w.b_sees_a = ha;
  let init_is_a = match (oa, ob) {
    (Outcome::PendingHandshakeRequest, Outcome::PendingHandshakeMessage) => true,
    (Outcome::PendingHandshakeMessage, Outcome::PendingHandshakeRequest) => false,
    other => {
      return Err(v(
        "C19/no-initiator",
        format!("validate_remote_identity answered {other:?}: exactly one side must be told to send the request"),
      ))
    }
  };
  ctx.logf(|| format!("initiator is {}", if init_is_a { "A" } else { "B" }));

  // an outsider with the subject name of participant2 (`foreign`) or participant1 (`foreign1`), certified by another CA
  let xdir = if ctx.ch.chance(1, 2) { "foreign1" } else { "foreign" };
  let mut x: Option<AuthParty> = None;

  let mut s = w.start(init_is_a).map_err(|e| v("C19/genuine-handshake-fails", e))?;
  let mut restarts = 0;
  let mut step = Step::Request;
  let mut done_init = false;
  let mut done_repl = false;
  let mut guard = 0;
  while !(done_init && done_repl) {
    guard += 1;
    if guard > 40 {
      return Err(v("HARNESS-ERROR/c19-loop", "the scenario did not come to an end".into()));
    }
    let genuine: Token = match step {
      Step::Request => s.m1.clone(),
      Step::Reply => s.m2.clone().unwrap(),
      Step::Final => s.m3.clone().unwrap(),
    };
    // ---- injections before the genuine message ----------------------------------------------------
    let n_inj = ctx.ch.weighted(&[5, 4, 2, 1]);
    let mut poisoned = false;
    for _ in 0..n_inj {
      let kind = ctx.ch.weighted(&[6, 3, 2, 2, 1]);
      let (msg, what): (Token, String) = match kind {
        0 => {
          let other = w.seen.iter().rev().map(|(_, t)| t).find(|t| **t != genuine).cloned();
          let (m, d) = alter(&genuine, other.as_ref(), ctx);
          (m, format!("altered: {d}"))
        }
        1 => {
          // replay of an earlier genuine message (any step, any session), not the one due now
          let cands: Vec<&(Step, Token)> = w.seen.iter().filter(|(_, t)| *t != genuine).collect();
          if cands.is_empty() {
            continue;
          }
          let c = cands[ctx.ch.index(cands.len())];
          (c.1.clone(), format!("replay of an earlier {:?} message", c.0))
        }
        2 => {
          // the wrong message of this session for this point
          let others: Vec<Token> = [Some(s.m1.clone()), s.m2.clone(), s.m3.clone()]
            .into_iter()
            .flatten()
            .filter(|t| *t != genuine)
            .collect();
          if others.is_empty() {
            continue;
          }
          (others[ctx.ch.index(others.len())].clone(), "out of order".into())
        }
        3 => {
          // a message made by the outsider (foreign CA): its own request, or the genuine one with its certificate
          if x.is_none() {
            x = Some(AuthParty::new(&format!("{dir}/{xdir}"), [9, 2, 3, 4, 5, 6, 7, 8, 9, 10, 11, 9]).map_err(|e| v("HARNESS-ERROR/c19-foreign", e))?);
          }
          let xp = x.as_mut().unwrap();
          let gx = xp.guid_bytes();
          let idt = if init_is_a { &idb } else { &ida };
          let target_pfx = if s.init_is_a { pfx(gb) } else { pfx(ga) };
          // its participant data: its own, or a copy of the genuine initiator's
          let xpdata = if ctx.ch.chance(1, 2) { pdata_for(gx) } else if s.init_is_a { w.pa.clone() } else { w.pb.clone() };
          match xp.see_remote(idt, target_pfx, None).and_then(|(_, h, _)| xp.begin_request(h, xpdata)) {
            Ok((_, _, mx)) => {
              if step == Step::Request || (step == Step::Final && ctx.ch.chance(1, 2)) {
                // an active forger: if its request is answered it signs a final message with its own key
                w.injected += 1;
                ctx.count("fault.injected_handshake_message");
                ctx.logf(|| format!("{step:?}: inject request of a participant certified by a foreign CA ({xdir})"));
                w.fp.str("foreign request");
                let (remote, pdata) = if s.init_is_a { (w.b_sees_a, w.pb.clone()) } else { (w.a_sees_b, w.pa.clone()) };
                let init_is_a = s.init_is_a;
                match w.party(!init_is_a).begin_reply(&mx, remote, pdata) {
                  Err(e) => ctx.logf(|| format!("  rejected: {}", &e[..e.len().min(100)])),
                  Ok((_, hsx, m2x)) => {
                    ctx.count("probe.replied_to_foreign_ca_request");
                    let ff = forge_final(&format!("{dir}/{xdir}/key.pem"), &mx, &m2x).map_err(|e| v("HARNESS-ERROR/c19-forge", e))?;
                    if let Ok((o, _)) = w.party(!init_is_a).process(&ff, hsx) {
                      if o == Outcome::Ok || o == Outcome::OkFinalMessage {
                        return Err(v(
                          "C19/foreign-ca-accepted",
                          format!("{step:?}: the request of a participant certified by a foreign CA ({xdir}) was answered and its final message accepted ({o:?}): handshake completed with a foreign-CA identity"),
                        ));
                      }
                    }
                    if step == Step::Request {
                      s.hs_repl = Some(hsx);
                    }
                  }
                }
                continue;
              } else if step == Step::Request {
                (mx, "request of a participant certified by a foreign CA".into())
              } else {
                let mut m = genuine.clone();
                for (n, val) in m.bin.iter_mut() {
                  if n == "c.id" {
                    if let Some((_, xv)) = mx.bin.iter().find(|(n2, _)| n2 == "c.id") {
                      *val = xv.clone();
                    }
                  }
                }
                if m == genuine {
                  continue;
                }
                (m, "genuine message with the certificate of the foreign-CA participant".into())
              }
            }
            Err(_) => continue, // the outsider could not even start (already asked to wait)
          }
        }
        _ => {
          // participant data whose GUID is not the one bound to the certificate
          let mut m = genuine.clone();
          let mut g = if (step == Step::Reply) == s.init_is_a { gb } else { ga };
          g[0] ^= 0x40;
          g[3] ^= 0x01;
          let mut hit = false;
          for (n, val) in m.bin.iter_mut() {
            if n == "c.pdata" {
              *val = pdata_for(g);
              hit = true;
            }
          }
          if !hit {
            continue;
          }
          (m, "participant data with a GUID that is not bound to the certificate".into())
        }
      };
      if msg == genuine {
        continue;
      }
      w.injected += 1;
      ctx.count("fault.injected_handshake_message");
      ctx.logf(|| format!("{step:?}: inject {what}"));
      w.fp.str(&what[..what.len().min(24)]);
      let hs_before = s.hs_repl;
      match w.deliver(&mut s, step, &msg) {
        Err(e) => {
          ctx.logf(|| format!("  rejected: {}", &e[..e.len().min(100)]));
          // a rejected request may have opened a handshake at the replier; forget it
          if step == Step::Request {
            s.hs_repl = hs_before;
          }
        }
        Ok((o, reply)) => {
          let accepted = match step {
            // answering an altered request is no authentication yet: the request is not signed, and
            // whatever was changed in it is bound into the reply and noticed by the genuine initiator.
            // What matters is that the genuine request is still served afterwards (checked below).
            Step::Request => {
              if reply.is_some() {
                ctx.count("probe.replied_to_forged_request");
              }
              false
            }
            Step::Reply => o == Outcome::OkFinalMessage || o == Outcome::Ok,
            Step::Final => o == Outcome::Ok || o == Outcome::OkFinalMessage,
          };
          if accepted {
            return Err(v(
              "C19/forgery-accepted",
              format!("{step:?}: {what}: the plugin answered {o:?}{}", if reply.is_some() { " with a reply" } else { "" }),
            ));
          }
          poisoned = true;
        }
      }
    }
    let _ = poisoned;
    // ---- the genuine message ---------------------------------------------------------------------------
    ctx.logf(|| format!("{step:?}: genuine message"));
    // self-test of the forger's tool: the final message made again with the genuine initiator's key is
    // as good as the genuine one
    let genuine = if step == Step::Final && n_inj == 0 && ctx.ch.chance(1, 8) {
      let key = format!("{dir}/{}/key.pem", if s.init_is_a { "p1" } else { "p2" });
      let again = forge_final(&key, &s.m1, s.m2.as_ref().unwrap()).map_err(|e| v("HARNESS-ERROR/c19-forge", e))?;
      match w.deliver(&mut s, step, &again) {
        Ok((Outcome::Ok, _)) => {
          ctx.count("probe.final_made_again_with_genuine_key_accepted");
          done_repl = true;
          continue;
        }
        other => {
          return Err(v(
            "HARNESS-ERROR/c19-forge",
            format!("a final message made again with the genuine key was answered {other:?}"),
          ))
        }
      }
    } else {
      genuine
    };
    match w.deliver(&mut s, step, &genuine) {
      Ok((o, reply)) => match step {
        Step::Request => {
          let m2 = reply.ok_or_else(|| v("C19/genuine-handshake-fails", "no reply to the genuine request".into()))?;
          if o != Outcome::PendingHandshakeMessage {
            return Err(v("C19/genuine-handshake-fails", format!("begin_handshake_reply answered {o:?}")));
          }
          w.seen.push((Step::Reply, m2.clone()));
          s.m2 = Some(m2);
          step = Step::Reply;
        }
        Step::Reply => {
          if o != Outcome::OkFinalMessage || reply.is_none() {
            return Err(v("C19/genuine-handshake-fails", format!("the genuine reply was answered {o:?}")));
          }
          let m3 = reply.unwrap();
          w.seen.push((Step::Final, m3.clone()));
          s.m3 = Some(m3);
          done_init = true;
          step = Step::Final;
        }
        Step::Final => {
          if o != Outcome::Ok {
            return Err(v("C19/genuine-handshake-fails", format!("the genuine final message was answered {o:?}")));
          }
          done_repl = true;
        }
      },
      Err(e) => {
        // the forgeries before it may have cost this session; the handshake is started again
        restarts += 1;
        ctx.count("probe.handshake_restarted_after_forgery");
        ctx.logf(|| format!("  the genuine {step:?} message was refused ({}); starting again", &e[..e.len().min(80)]));
        if restarts > 2 || w.injected == 0 {
          return Err(v(
            if w.injected == 0 { "C19/genuine-handshake-fails" } else { "C19/genuine-handshake-blocked-by-forgery" },
            format!("the genuine {step:?} message was refused ({e}) after {} injected messages, restart #{restarts}", w.injected),
          ));
        }
        match w.start(s.init_is_a) {
          Ok(ns) => {
            s = ns;
            step = Step::Request;
            done_init = false;
            done_repl = false;
          }
          Err(e2) => {
            return Err(v(
              "C19/genuine-handshake-blocked-by-forgery",
              format!("after a refused genuine {step:?} message ({e}) the handshake cannot be started again: {e2}"),
            ))
          }
        }
      }
    }
  }
  // ---- both sides are done --------------------------------------------------------------------------------
  let sa = w.a.shared_secret(w.a_sees_b).map_err(|e| v("C19/no-shared-secret", e))?;
  let sb = w.b.shared_secret(w.b_sees_a).map_err(|e| v("C19/no-shared-secret", e))?;
  if sa != sb || sa.is_empty() {
    return Err(v("C19/shared-secrets-differ", format!("A derived {} bytes, B {} bytes, equal: {}", sa.len(), sb.len(), sa == sb)));
  }
  // ---- stray messages after completion: nothing may change -------------------------------------------------
  let n_stray = ctx.ch.weighted(&[4, 3, 2, 1]);
  for _ in 0..n_stray {
    let to_init = ctx.ch.chance(1, 2);
    let c = w.seen[ctx.ch.index(w.seen.len())].clone();
    let msg = if ctx.ch.chance(1, 3) { alter(&c.1, None, ctx).0 } else { c.1 };
    let (is_a, hs) = if to_init { (s.init_is_a, Some(s.hs_init)) } else { (!s.init_is_a, s.hs_repl) };
    let Some(hs) = hs else { continue };
    w.injected += 1;
    ctx.count("fault.stray_message_after_completion");
    let r = w.party(is_a).process(&msg, hs);
    ctx.logf(|| format!("after completion: a {:?}-type message to the {}: {:?}", c.0, if to_init { "initiator" } else { "replier" }, r.as_ref().map(|(o, _)| *o).map_err(|e| e[..e.len().min(60)].to_string())));
    w.fp.str("stray");
  }
  if n_stray > 0 {
    let sa2 = w.a.shared_secret(w.a_sees_b).map_err(|e| v("C19/shared-secret-lost-after-stray-message", format!("A, after {n_stray} stray messages following completion: {e}")))?;
    let sb2 = w.b.shared_secret(w.b_sees_a).map_err(|e| v("C19/shared-secret-lost-after-stray-message", format!("B, after {n_stray} stray messages following completion: {e}")))?;
    if sa2 != sa || sb2 != sb {
      return Err(v("C19/shared-secret-lost-after-stray-message", "the shared secret changed after stray messages following completion".into()));
    }
  }
  // a participant that never took part in a handshake has no shared secret
  for (who, p, h) in [("A", &w.a, a_sees_x), ("B", &w.b, b_sees_x)] {
    if let Some(h) = h {
      if p.shared_secret(h).is_ok() {
        return Err(v("C19/foreign-ca-accepted", format!("{who} holds a shared secret for the foreign-CA participant it only saw in discovery")));
      }
    }
  }
  // the outsider on its own: a full attempt against A must go nowhere
  if ctx.ch.chance(1, 3) {
    if x.is_none() {
      x = Some(AuthParty::new(&format!("{dir}/{xdir}"), [9, 2, 3, 4, 5, 6, 7, 8, 9, 10, 11, 9]).map_err(|e| v("HARNESS-ERROR/c19-foreign", e))?);
    }
    let xp = x.as_mut().unwrap();
    let gx = xp.guid_bytes();
    let idx = xp.identity_token().map_err(|e| v("HARNESS-ERROR/c19-token", e))?;
    if let Ok((o, hx, _)) = w.a.see_remote(&idx, pfx(gx), None) {
      match o {
        Outcome::PendingHandshakeRequest => {
          if let Ok((_, hs, m1)) = w.a.begin_request(hx, w.pa.clone()) {
            if let Ok((_, _hsx, m2)) = xp.see_remote(&ida, pfx(ga), None).and_then(|(_, ha2, _)| xp.begin_reply(&m1, ha2, pdata_for(gx))) {
              if let Ok((o2, _)) = w.a.process(&m2, hs) {
                return Err(v("C19/foreign-ca-accepted", format!("A answered {o2:?} to the reply of a participant certified by a foreign CA")));
              }
            }
          }
        }
        _ => {
          if let Ok((_, hax, _)) = xp.see_remote(&ida, pfx(ga), None) {
            if let Ok((_, _, m1)) = xp.begin_request(hax, pdata_for(gx)) {
              if let Ok((o2, _, _)) = w.a.begin_reply(&m1, hx, w.pa.clone()) {
                return Err(v("C19/foreign-ca-accepted", format!("A answered {o2:?} with a reply to the request of a participant certified by a foreign CA")));
              }
            }
          }
        }
      }
    }
    ctx.count("probe.foreign_ca_attempt");
  }
  ctx.nontrivial = w.injected >= 1;
  ctx.add("restarts", restarts);
  w.fp.u64(restarts);
  ctx.state(w.fp.get());
  Ok(())
}
