//! C20 — wait_for_acknowledgments says yes only when everything was acknowledged
//! (writer level, engine E1; the DataWriter API forms run in engine E2).
use super::{wvr, Spec, E1_REAL, E1_STUB};
use crate::ctx::{Check, Ctx};

pub fn spec() -> Spec {
  Spec {
    id: "C20",
    engine: "E1 rtps-core (WriterCommand::WaitForAcknowledgments with its completion channel on the real Writer; 0-4 scripted reliable/best-effort readers)",
    level: "exploration",
    rule: "one case = one seeded run: writes before/after the wait command, ACKNACKs with any base (in particular last and last+1), reader match/loss while waiting, command processed immediately or later; model: need = reliable readers matched when the writer takes the command and not yet past wait_until = last SN written before the call; success only when every needed reader acknowledged past wait_until or was lost, and by the very step that makes this true; non-trivial = at least one write; distinct = fingerprint of (history size, last SN, matched readers) sequence",
    quick_runs: 300_000,
    quick_secs: 90.0,
    thorough_runs: 5_000_000,
    thorough_secs: 1200.0,
    batch: 32,
    per_run_timeout_s: 30.0,
    real: E1_REAL,
    stub: E1_STUB,
    assumptions: &[
      "E1 observes the completion channel handed to the Writer; DataWriter::wait_for_acknowledgments / async_wait_for_acknowledgments (timeout, pending) are the E2 part",
      "one outstanding wait at a time (the public call is synchronous per writer)",
    ],
  }
}

pub fn run(tier: &str, ctx: &mut Ctx) -> Check {
  let thorough = tier == "thorough";
  wvr::run(
    &wvr::Params {
      focus: wvr::Focus::C20,
      max_ops: if thorough { 120 } else { 60 },
      max_writes: if thorough { 100 } else { 30 },
    },
    ctx,
  )
}
