//! development smoke test of engine E2 (not a claimed property)
use rustdds::{
  policy::{History, Reliability},
  with_key::{DataReader, DataWriter},
  DomainParticipant, Keyed, QosPolicyBuilder, TopicKind,
};
use serde::{Deserialize, Serialize};

use super::Spec;
use crate::{
  ctx::{Check, Ctx, Violation},
  e2::{self, SEC},
};

#[derive(Serialize, Deserialize, Debug, Clone, PartialEq)]
pub struct Msg {
  pub k: u32,
  pub v: Vec<u8>,
}
impl Keyed for Msg {
  type K = u32;
  fn key(&self) -> u32 {
    self.k
  }
}

pub fn spec() -> Spec {
  Spec {
    id: "X01",
    engine: "E2",
    level: "exploration",
    rule: "smoke",
    quick_runs: 200,
    quick_secs: 60.0,
    thorough_runs: 1000,
    thorough_secs: 100.0,
    batch: 1,
    per_run_timeout_s: 60.0,
    real: &[],
    stub: &[],
    assumptions: &[],
  }
}

pub fn run(_tier: &str, ctx: &mut Ctx) -> Check {
  e2::enter(ctx);
  let r = body();
  e2::leave(ctx);
  r
}

fn body() -> Check {
  let qos = QosPolicyBuilder::new()
    .reliability(Reliability::Reliable {
      max_blocking_time: rustdds::Duration::from_millis(100),
    })
    .history(History::KeepAll)
    .build();
  simcore::set_node(1);
  let dp1 = DomainParticipant::new(0).map_err(|e| Violation::new("HARNESS-ERROR/dp", format!("{e:?}")))?;
  e2::log("dp1 created");
  simcore::set_node(2);
  let dp2 = DomainParticipant::new(0).map_err(|e| Violation::new("HARNESS-ERROR/dp", format!("{e:?}")))?;
  e2::log("dp2 created");
  simcore::set_node(1);
  let t1 = dp1
    .create_topic("T".into(), "Msg".into(), &qos, TopicKind::WithKey)
    .unwrap();
  let p1 = dp1.create_publisher(&qos).unwrap();
  let w: DataWriter<Msg> = p1.create_datawriter_cdr(&t1, None).unwrap();
  simcore::set_node(2);
  let t2 = dp2
    .create_topic("T".into(), "Msg".into(), &qos, TopicKind::WithKey)
    .unwrap();
  let s2 = dp2.create_subscriber(&qos).unwrap();
  let mut r: DataReader<Msg> = s2.create_datareader_cdr(&t2, None).unwrap();
  e2::log("entities created");
  e2::run_for(5 * SEC)?;
  simcore::set_node(1);
  w.write(Msg { k: 1, v: vec![1, 2, 3] }, None).unwrap();
  e2::log("written");
  e2::run_for(3 * SEC)?;
  simcore::set_node(2);
  let got = r.take(10, rustdds::ReadCondition::any()).unwrap();
  e2::log(&format!("taken {}", got.len()));
  e2::with(|st| st.ctx.nontrivial = !got.is_empty());
  if got.is_empty() {
    return Err(Violation::new("X01/no-delivery", "sample did not arrive"));
  }
  drop(r);
  drop(w);
  drop(dp1);
  drop(dp2);
  e2::log("dropped");
  Ok(())
}
