//! Property registry: which scenario decides which property, with its budgets.

use crate::ctx::{Check, Ctx};

pub mod c01;
pub mod c02;
pub mod c03;
pub mod c04;
pub mod c20;
pub mod e2smoke;
pub mod wvr;
pub mod c05;
pub mod c06;
pub mod c06d;
pub mod c07;
pub mod c08;
pub mod c09;
pub mod c11;
pub mod c12;
pub mod c13;
pub mod scripted;
#[cfg(feature = "security")]
pub mod secsmoke;
#[cfg(feature = "security")]
pub mod c19;
#[cfg(feature = "security")]
pub mod c17;

pub struct Spec {
  pub id: &'static str,
  pub engine: &'static str,
  pub level: &'static str,
  pub rule: &'static str,
  pub quick_runs: u64,
  pub quick_secs: f64,
  pub thorough_runs: u64,
  pub thorough_secs: f64,
  pub batch: usize,
  pub per_run_timeout_s: f64,
  pub real: &'static [&'static str],
  pub stub: &'static [&'static str],
  pub assumptions: &'static [&'static str],
}

pub const E1_REAL: &[&str] = &[
  "rtps::DPEventLoop handlers (acknack routing, add/remove endpoint, discovery notifications, timed events)",
  "rtps::MessageReceiver (parsing, submessage interpretation, dispatch)",
  "rtps::Reader, RtpsWriterProxy, FragmentAssembler",
  "rtps::Writer, RtpsReaderProxy, HistoryBuffer",
  "rtps::MessageBuilder and all submessage (de)serialisers",
  "structure::DDSCache / TopicCache",
  "dds::qos compliance checks, status channels",
];
pub const E1_STUB: &[&str] = &[
  "kernel UDP and epoll (simulated network; UDPSender hook captures datagrams)",
  "mio-extras timer wheel and channel readiness (mio-extras-sim shim on simulated time)",
  "wall clock (Timestamp::now hook)",
  "token dispatch of DPEventLoop::event_loop() (~40 lines; handlers are called directly)",
  "DataReader/DataWriter front ends (channel plumbing mirrored in /verif/facade/node.rs; read pointer advance mirrored in LocalReader::take_one)",
  "Discovery (notifications are injected)",
];

pub fn all() -> Vec<&'static str> {
  vec!["C01", "C02", "C03", "C04", "C05", "C20"]
}

pub fn spec(id: &str) -> Option<Spec> {
  match id {
    "C01" => Some(c01::spec()),
    "C02" => Some(c02::spec()),
    "C03" => Some(c03::spec()),
    "C04" => Some(c04::spec()),
    "C05" => Some(c05::spec()),
    "C06" => Some(c06::spec()),
    "C07" => Some(c07::spec()),
    "C08" => Some(c08::spec()),
    "C09" => Some(c09::spec()),
    "C11" => Some(c11::spec()),
    "C12" => Some(c12::spec()),
    "C13" => Some(c13::spec()),
    "C20" => Some(c20::spec()),
    "X01" => Some(e2smoke::spec()),
    #[cfg(feature = "security")]
    "X02" => Some(secsmoke::spec()),
    #[cfg(feature = "security")]
    "C19" => Some(c19::spec()),
    #[cfg(feature = "security")]
    "C17" => Some(c17::spec()),
    _ => None,
  }
}

pub fn run(id: &str, tier: &str, ctx: &mut Ctx) -> Check {
  match id {
    "C01" => c01::run(tier, ctx),
    "C02" => c02::run(tier, ctx),
    "C03" => c03::run(tier, ctx),
    "C04" => c04::run(tier, ctx),
    "C05" => c05::run(tier, ctx),
    "C06" => c06::run(tier, ctx),
    "C07" => c07::run(tier, ctx),
    "C08" => c08::run(tier, ctx),
    "C09" => c09::run(tier, ctx),
    "C11" => c11::run(tier, ctx),
    "C12" => c12::run(tier, ctx),
    "C13" => c13::run(tier, ctx),
    "C20" => c20::run(tier, ctx),
    "X01" => e2smoke::run(tier, ctx),
    #[cfg(feature = "security")]
    "X02" => secsmoke::run(tier, ctx),
    #[cfg(feature = "security")]
    "C19" => c19::run(tier, ctx),
    #[cfg(feature = "security")]
    "C17" => c17::run(tier, ctx),
    _ => panic!("unknown property {id}"),
  }
}
