//! Scenario "scripted writers -> real reliable reader" (engine E1).
//!
//! 1-3 scripted writers (other vendor id, own GUID prefixes) emit a
//! seed-generated, well-behaved history of DATA / DATAFRAG / HEARTBEAT / GAP
//! messages built with the harness' independent encoder.  The messages sit in
//! a bag from which the simulator delivers them in any order, drops them or
//! delivers them more than once; application `take` calls and clock advances
//! are interleaved.  Oracles:
//!   C01  hand-over order / once / no holes / unaltered           (S1-S4)
//!   C05  fragment reassembly (bytes, once, only when complete)     (part of S3)
//!   C03  truthfulness of every ACKNACK / NACKFRAG the reader emits

use std::collections::{BTreeMap, BTreeSet};

use rustdds::verif::{ChangeData, ChangeView, LocalReader, SimNode};

use crate::{
  ctx::{Check, Ctx, Violation},
  e1::*,
  wire::{self, Eid, Guid, Prefix, SnSet, Sub},
};

#[derive(Clone, Copy, PartialEq, Eq, Debug)]
pub enum Focus {
  C01,
  C03,
  C05,
}

#[derive(Clone, Debug)]
enum Kind {
  Plain,
  Frag { fs: u16 },
  /// never transmitted (filtered): may only ever be GAPped
  Never,
}

#[derive(Clone, Debug)]
struct Plan {
  kind: Kind,
  payload: Vec<u8>,
  src_ticks: Option<u64>,
}

impl Plan {
  fn nfrags(&self) -> u32 {
    match self.kind {
      Kind::Frag { fs } => ((self.payload.len() + fs as usize - 1) / fs as usize) as u32,
      _ => 0,
    }
  }
}

struct SWriter {
  ix: u32,
  node: u32,
  prefix: Prefix,
  eid: Eid,
  guid: Guid,
  be: bool,
  /// RTPS 8.4.14.1.1: the fragment size is fixed for a given writer
  fs: u16,
  plans: Vec<Plan>, // plans[sn-1]
  first_avail: i64,
  hb_count: i32,
  matched: bool,
}

impl SWriter {
  fn written(&self) -> i64 {
    self.plans.len() as i64
  }
  fn gappable(&self, sn: i64) -> bool {
    sn >= 1
      && sn <= self.written()
      && (sn < self.first_avail || matches!(self.plans[(sn - 1) as usize].kind, Kind::Never))
  }
}

/// a message in flight
#[derive(Clone, Debug)]
struct Flight {
  id: u64,
  writer_ix: usize,
  bytes: Vec<u8>,
  brief: String,
}

/// what the oracle knows about one (reader, writer) pair
#[derive(Default, Clone, Debug)]
struct Track {
  // --- superset knowledge (anything delivered that could have told the reader)
  data_delivered: BTreeSet<i64>,
  frags_delivered: BTreeMap<i64, BTreeSet<u32>>,
  unavail_sup: BTreeSet<i64>,
  unavail_below_sup: i64,
  // --- spec-following knowledge (what the reader must have accepted)
  received: BTreeSet<i64>,
  frags_held: BTreeMap<i64, (BTreeSet<u32>, u64)>, // sn -> (fragments, sim time of last progress)
  unavail_acc: BTreeSet<i64>,
  unavail_below_acc: i64,
  hb_count_acc: i32,
  hb_seen: bool,
  /// partially received samples whose assembly buffer may or may not have been
  /// garbage collected (idle close to / beyond the 10 s limit when another
  /// DATAFRAG arrived): nothing is asserted about them until they are handed over
  ambiguous: BTreeSet<i64>,
  last_adv: Option<(i64, i64)>,
  // --- hand-over history
  handed: Vec<i64>,
  // --- acknack history
  last_base: i64,
  /// last count seen per submessage kind (RTPS keeps AckNack.count and
  /// NackFrag.count as separate counters; RustDDS draws both from one counter
  /// but emits the NACKFRAG message before the ACKNACK built earlier)
  last_count: Option<i32>,
  last_count_nf: Option<i32>,
}

impl Track {
  fn complete_sup(&self, sn: i64, nfrags: u32) -> bool {
    self.data_delivered.contains(&sn)
      || (nfrags > 0
        && self
          .frags_delivered
          .get(&sn)
          .map_or(false, |s| (1..=nfrags).all(|f| s.contains(&f))))
  }
  fn unavail_sup(&self, sn: i64) -> bool {
    sn < self.unavail_below_sup || self.unavail_sup.contains(&sn)
  }
  fn unavail_acc(&self, sn: i64) -> bool {
    sn < self.unavail_below_acc || self.unavail_acc.contains(&sn)
  }
}

pub struct Params {
  pub focus: Focus,
  pub max_writers: u64,
  pub max_sn: i64,
  pub steps_lo: u64,
  pub steps_hi: u64,
  pub frag_weight: u64,
  pub wide_window: bool,
}

struct RState {
  r: LocalReader,
  eid: Eid,
  reliable: bool,
}

struct World {
  node: SimNode,
  node_prefix: Prefix,
  readers: Vec<RState>,
  writers: Vec<SWriter>,
  bag: Vec<Flight>,
  next_flight: u64,
  // tracks[reader_ix][writer_ix]
  tracks: Vec<Vec<Track>>,
  focus: Focus,
  fault_free: bool,
  p_drop: u64,
  p_dup: u64,
  p_reorder: u64,
}

const TOPIC: &str = "T";
const TYPE: &str = "Blob";
const GC_RELAX_NS: u64 = 9_500_000_000; // assembly buffers may legally vanish after 10 s idle

fn v(class: &str, detail: String) -> Violation {
  Violation::new(class, detail)
}

pub fn run(p: &Params, ctx: &mut Ctx) -> Check {
  let node_id = 1u32;
  let node_prefix = prefix_for(node_id);
  let mut node = SimNode::new(node_id, node_prefix, 0);

  // ---- swarm configuration ---------------------------------------------------
  let n_writers = 1 + ctx.ch.draw(p.max_writers) as usize;
  let two_readers = ctx.ch.chance(1, 4);
  let fault_free = ctx.ch.chance(1, 4);
  let (p_drop, p_dup, p_reorder) = if fault_free {
    (0, 0, 0)
  } else {
    (
      *ctx.ch.pick(&[0u64, 5, 15, 30]),
      *ctx.ch.pick(&[0u64, 5, 15]),
      *ctx.ch.pick(&[0u64, 10, 30, 60]),
    )
  };
  let steps = ctx.ch.range(p.steps_lo, p.steps_hi);

  let rq = qos(true, true, 0, false, 100_000);
  let mut readers = vec![RState {
    r: node.add_reader(EID_READER_1, TOPIC, TYPE, &rq),
    eid: EID_READER_1,
    reliable: true,
  }];
  if two_readers {
    // a second reader on the same topic (reliable or best effort)
    let rel = ctx.ch.flag();
    let q2 = qos(rel, true, 0, false, 100_000);
    readers.push(RState {
      r: node.add_reader(EID_READER_2, TOPIC, TYPE, &q2),
      eid: EID_READER_2,
      reliable: rel,
    });
  }

  let mut writers = vec![];
  for i in 0..n_writers {
    let wnode = 100 + i as u32;
    let prefix = prefix_for(wnode);
    let eid = [0, 0, 0x30 + i as u8, 0x02];
    writers.push(SWriter {
      ix: i as u32,
      node: wnode,
      prefix,
      eid,
      guid: wire::guid(prefix, eid),
      be: ctx.ch.chance(1, 4),
      fs: *ctx.ch.pick(&[16u16, 8, 64, 1024]),
      plans: vec![],
      first_avail: 1,
      hb_count: 0,
      matched: false,
    });
  }
  ctx.logf(|| {
    format!(
      "cfg writers={n_writers} readers={} fault_free={fault_free} drop={p_drop}% dup={p_dup}% reorder={p_reorder}% steps={steps}",
      readers.len()
    )
  });

  let tracks = vec![vec![Track::default(); n_writers]; readers.len()];
  let mut w = World {
    node,
    node_prefix,
    readers,
    writers,
    bag: vec![],
    next_flight: 1,
    tracks,
    focus: p.focus,
    fault_free,
    p_drop,
    p_dup,
    p_reorder,
  };

  // match all writers at start (some later, see action Match)
  for i in 0..n_writers {
    if i == 0 || !ctx.ch.chance(1, 5) {
      w.do_match(i, ctx);
    }
  }

  for _ in 0..steps {
    w.step(p, ctx)?;
  }

  // ---- closing phase: no more faults; deliver what is left, take everything ----
  if ctx.ch.chance(3, 4) {
    for i in 0..n_writers {
      if !w.writers[i].matched {
        w.do_match(i, ctx);
      }
    }
    while !w.bag.is_empty() {
      w.deliver_at(0, false, ctx)?;
    }
    // a final heartbeat per writer so that holes are either requested or known
    for i in 0..n_writers {
      w.emit_heartbeat(i, false, ctx);
      while !w.bag.is_empty() {
        w.deliver_at(0, false, ctx)?;
      }
    }
  }
  for ri in 0..w.readers.len() {
    w.take(ri, true, ctx)?;
  }
  // fingerprint: per pair (handed count, frontier) sequence is folded in during the run
  let handed_total: usize = w.tracks.iter().flatten().map(|t| t.handed.len()).sum();
  ctx.nontrivial = handed_total >= 1;
  ctx.add("samples_handed_over", handed_total as u64);
  Ok(())
}

impl World {
  fn do_match(&mut self, wi: usize, ctx: &mut Ctx) {
    let wr = &mut self.writers[wi];
    wr.matched = true;
    let d = rustdds::verif::discovered_writer(
      wr.guid,
      TOPIC,
      TYPE,
      &qos(true, true, 0, false, 0),
      &[node_addr(wr.node)],
      &[],
    );
    self.node.remote_writer_discovered(d);
    ctx.logf(|| format!("match writer {wi}"));
    ctx.count("op.match");
  }

  fn step(&mut self, p: &Params, ctx: &mut Ctx) -> Check {
    // action 0 is the plain forward step: deliver the oldest message in flight,
    // or let a writer emit if nothing is in flight
    let weights: [u64; 7] = [
      40,                                        // 0 forward
      20,                                        // 1 emit
      if self.bag.is_empty() { 0 } else { self.p_reorder }, // 2 deliver any (reorder)
      if self.bag.is_empty() { 0 } else { self.p_dup },     // 3 duplicate
      if self.bag.is_empty() { 0 } else { self.p_drop },    // 4 drop
      12,                                        // 5 take
      4,                                         // 6 time
    ];
    match ctx.ch.weighted(&weights) {
      0 => {
        if self.bag.is_empty() {
          self.emit(p, ctx)
        } else {
          self.deliver_at(0, false, ctx)
        }
      }
      1 => self.emit(p, ctx),
      2 => {
        let i = ctx.ch.index(self.bag.len());
        if i > 0 {
          ctx.count("fault.reorder");
        }
        self.deliver_at(i, false, ctx)
      }
      3 => {
        let i = ctx.ch.index(self.bag.len());
        ctx.count("fault.duplicate");
        self.deliver_at(i, true, ctx)
      }
      4 => {
        let i = ctx.ch.index(self.bag.len());
        let f = self.bag.remove(i);
        ctx.count("fault.drop");
        ctx.logf(|| format!("drop #{} {}", f.id, f.brief));
        Ok(())
      }
      5 => {
        let ri = ctx.ch.index(self.readers.len());
        let all = ctx.ch.flag();
        self.take(ri, all, ctx)
      }
      _ => {
        let d = *ctx.ch.pick(&[1_000_000u64, 100_000_000, 3_000_000_000, 11_000_000_000]);
        simcore::advance_by(d);
        self.node.fire_timers();
        ctx.logf(|| format!("time +{}ms", d / 1_000_000));
        if d >= 10_000_000_000 {
          ctx.count("probe.clock_jump_over_fragment_gc");
        }
        Ok(())
      }
    }
  }

  // ---------------------------------------------------------------------------
  // scripted writer behaviour
  // ---------------------------------------------------------------------------

  fn push_flight(&mut self, wi: usize, subs: Vec<Sub>, ctx: &mut Ctx) {
    let wr = &self.writers[wi];
    let bytes = wire::encode_msg(&wr.prefix, &subs, wr.be);
    let brief = subs.iter().map(wire::sub_brief).collect::<Vec<_>>().join(",");
    let id = self.next_flight;
    self.next_flight += 1;
    ctx.logf(|| format!("emit w{wi} #{id} {brief}"));
    self.bag.push(Flight {
      id,
      writer_ix: wi,
      bytes,
      brief,
    });
  }

  fn reader_eid_choice(&self, ctx: &mut Ctx) -> Eid {
    // mostly ENTITYID_UNKNOWN (as RustDDS itself sends), sometimes explicit
    match ctx.ch.weighted(&[6, 3, if self.readers.len() > 1 { 2 } else { 0 }, 1]) {
      0 => wire::EID_UNKNOWN,
      1 => self.readers[0].eid,
      2 => self.readers[1].eid,
      _ => [0, 0, 0x7e, 0x07], // a reader that does not exist on the node
    }
  }

  fn dst_prefix_choice(&self, ctx: &mut Ctx) -> Option<Prefix> {
    match ctx.ch.weighted(&[6, 3, 1]) {
      0 => None,
      1 => Some(self.node_prefix),
      _ => {
        ctx.count("probe.misaddressed_info_dst");
        Some(prefix_for(77)) // somebody else
      }
    }
  }

  fn data_sub(&self, wi: usize, sn: i64, reader: Eid) -> Vec<Sub> {
    let wr = &self.writers[wi];
    let pl = &wr.plans[(sn - 1) as usize];
    let mut v = vec![];
    match pl.src_ticks {
      Some(t) => v.push(Sub::InfoTs { ticks: Some(t) }),
      // no timestamp: said explicitly (invalidate flag), or not at all (a new message starts without one)
      None if sn % 2 == 1 => v.push(Sub::InfoTs { ticks: None }),
      None => {}
    }
    v.push(Sub::Data {
      reader,
      writer: wr.eid,
      sn,
      inline_qos: None,
      has_data: true,
      has_key: false,
      payload: Some(pl.payload.clone()),
    });
    v
  }

  fn frag_sub(&self, wi: usize, sn: i64, first: u32, count: u16, reader: Eid) -> Vec<Sub> {
    let wr = &self.writers[wi];
    let pl = &wr.plans[(sn - 1) as usize];
    let fs = match pl.kind {
      Kind::Frag { fs } => fs,
      _ => unreachable!(),
    } as usize;
    let from = (first as usize - 1) * fs;
    let to = ((first as usize - 1 + count as usize) * fs).min(pl.payload.len());
    let mut v = vec![];
    match pl.src_ticks {
      Some(t) => v.push(Sub::InfoTs { ticks: Some(t) }),
      // no timestamp: said explicitly (invalidate flag), or not at all (a new message starts without one)
      None if sn % 2 == 1 => v.push(Sub::InfoTs { ticks: None }),
      None => {}
    }
    v.push(Sub::DataFrag {
      reader,
      writer: wr.eid,
      sn,
      frag_start: first,
      frags_in_sub: count,
      frag_size: fs as u16,
      sample_size: pl.payload.len() as u32,
      inline_qos: None,
      has_key: false,
      payload: pl.payload[from..to].to_vec(),
    });
    v
  }

  fn hb_sub(&mut self, wi: usize, reader: Eid, final_flag: bool) -> Sub {
    let wr = &mut self.writers[wi];
    wr.hb_count += 1;
    Sub::Heartbeat {
      reader,
      writer: wr.eid,
      first: wr.first_avail,
      last: wr.written(),
      count: wr.hb_count,
      final_flag,
      liveliness: false,
    }
  }

  fn emit_heartbeat(&mut self, wi: usize, final_flag: bool, ctx: &mut Ctx) {
    let hb = self.hb_sub(wi, wire::EID_UNKNOWN, final_flag);
    self.push_flight(wi, vec![hb], ctx);
  }

  fn emit(&mut self, p: &Params, ctx: &mut Ctx) -> Check {
    let wi = ctx.ch.index(self.writers.len());
    let written = self.writers[wi].written();
    let can_write = written < p.max_sn;
    let weights: [u64; 8] = [
      if can_write { 10 } else { 0 }, // 0 write next
      4,                              // 1 heartbeat
      if written > 0 { 3 } else { 0 }, // 2 resend something
      if written > 0 { 2 } else { 0 }, // 3 gap
      if written > 0 { 1 } else { 0 }, // 4 drop history (advance first)
      if !self.writers[wi].matched { 3 } else { 0 }, // 5 (late) match
      if p.wide_window && can_write { 3 } else { 0 }, // 6 burst of writes whose DATA is lost at once
      if p.wide_window && can_write && self.writers[wi].matched { 3 } else { 0 }, // 7 long healthy stretch: many writes delivered in order
    ];
    match ctx.ch.weighted(&weights) {
      0 => self.emit_write(wi, p, ctx),
      1 => {
        let fin = ctx.ch.chance(1, 3);
        let reader = self.reader_eid_choice(ctx);
        let hb = self.hb_sub(wi, reader, fin);
        let mut subs = vec![];
        if let Some(px) = self.dst_prefix_choice(ctx) {
          subs.push(Sub::InfoDst { prefix: px });
        }
        subs.push(hb);
        self.push_flight(wi, subs, ctx);
      }
      2 => self.emit_resend(wi, ctx),
      3 => self.emit_gap(wi, p, ctx),
      4 => {
        let wr = &mut self.writers[wi];
        let nf = wr.first_avail + 1 + ctx.ch.draw((wr.written() + 1 - wr.first_avail).max(1) as u64) as i64;
        wr.first_avail = nf.min(wr.written() + 1);
        let f = wr.first_avail;
        ctx.logf(|| format!("w{wi} history now starts at {f}"));
        ctx.count("op.writer_drops_history");
      }
      5 => self.do_match(wi, ctx),
      7 => {
        // a long stretch without faults: the reader's ack base moves far away from
        // the first sequence number the writer still advertises
        let room = (p.max_sn - written).max(1) as u64;
        let k = 1 + ctx.ch.draw(room.min(400));
        ctx.logf(|| format!("w{wi} writes {k} samples, all delivered in order"));
        for _ in 0..k {
          let sn = self.writers[wi].written() + 1;
          self.writers[wi].plans.push(Plan {
            kind: Kind::Plain,
            payload: payload_for(wi as u32, sn, 8),
            src_ticks: None,
          });
          let subs = self.data_sub(wi, sn, wire::EID_UNKNOWN);
          let keep = ctx.keep_lines;
          ctx.keep_lines = false; // keep traces readable
          self.push_flight(wi, subs, ctx);
          let last = self.bag.len() - 1;
          let r = self.deliver_at(last, false, ctx);
          ctx.keep_lines = keep;
          r?;
        }
        if k > 256 {
          ctx.count("probe.healthy_stretch_over_256");
        }
      }
      _ => {
        // many samples written, every DATA lost on the way: the quick road to
        // missing-sets wider than one 256-bit window
        let room = (p.max_sn - written).max(1) as u64;
        let k = 1 + ctx.ch.draw(room.min(300));
        for _ in 0..k {
          let sn = self.writers[wi].written() + 1;
          self.writers[wi].plans.push(Plan {
            kind: Kind::Plain,
            payload: payload_for(wi as u32, sn, 8),
            src_ticks: None,
          });
        }
        ctx.add("fault.drop", k);
        ctx.logf(|| format!("w{wi} writes {k} samples, all DATA lost"));
        if k > 256 {
          ctx.count("probe.burst_wider_than_256");
        }
      }
    }
    Ok(())
  }

  fn emit_write(&mut self, wi: usize, p: &Params, ctx: &mut Ctx) {
    let sn = self.writers[wi].written() + 1;
    let k = ctx.ch.weighted(&[6, p.frag_weight, 1]);
    let src_ticks = if ctx.ch.chance(2, 3) {
      Some(0x7000_0000_0000_0000u64 + ((wi as u64) << 32) + sn as u64 * 17)
    } else {
      None
    };
    let plan = match k {
      0 => {
        let len = *ctx.ch.pick(&[8usize, 0, 1, 2, 3, 4, 5, 6, 7, 13, 64, 200, 999]);
        Plan {
          kind: Kind::Plain,
          payload: payload_for(wi as u32, sn, len),
          src_ticks,
        }
      }
      1 => {
        let fs = self.writers[wi].fs;
        let nfr = 2 + ctx.ch.draw(5) as usize; // 2..6 fragments
        let r = *ctx.ch.pick(&[0usize, 1, 2, 3, fs as usize - 1]);
        // total serialized size (header included) = (nfr-1)*fs + (r or fs)
        let total = (nfr - 1) * fs as usize + if r == 0 { fs as usize } else { r };
        let body = total.saturating_sub(4).max(1);
        Plan {
          kind: Kind::Frag { fs },
          payload: payload_for(wi as u32, sn, body),
          src_ticks,
        }
      }
      _ => Plan {
        kind: Kind::Never,
        payload: vec![],
        src_ticks: None,
      },
    };
    let kind = plan.kind.clone();
    self.writers[wi].plans.push(plan);
    let reader = self.reader_eid_choice(ctx);
    match kind {
      Kind::Plain => {
        let mut subs = vec![];
        if let Some(px) = self.dst_prefix_choice(ctx) {
          subs.push(Sub::InfoDst { prefix: px });
        }
        subs.extend(self.data_sub(wi, sn, reader));
        if ctx.ch.chance(1, 3) {
          let fin = ctx.ch.flag();
          subs.push(self.hb_sub(wi, reader, fin)); // piggy-backed heartbeat, last
        }
        self.push_flight(wi, subs, ctx);
        ctx.count("op.write_plain");
      }
      Kind::Frag { .. } => {
        let n = self.writers[wi].plans[(sn - 1) as usize].nfrags();
        // other vendors put several fragments into one submessage
        let multi = ctx.ch.chance(1, 4);
        let mut f = 1u32;
        while f <= n {
          let cnt = if multi {
            (1 + ctx.ch.draw(3) as u32).min(n - f + 1)
          } else {
            1
          };
          let subs = self.frag_sub(wi, sn, f, cnt as u16, reader);
          self.push_flight(wi, subs, ctx);
          f += cnt;
        }
        if multi {
          ctx.count("probe.multi_fragment_submessage");
        }
        ctx.count("op.write_fragmented");
      }
      Kind::Never => {
        ctx.logf(|| format!("w{wi} sn {sn} is never sent"));
        ctx.count("op.write_never_sent");
      }
    }
  }

  fn emit_resend(&mut self, wi: usize, ctx: &mut Ctx) {
    let wr = &self.writers[wi];
    if wr.first_avail > wr.written() {
      return;
    }
    let sn = wr.first_avail + ctx.ch.draw((wr.written() - wr.first_avail + 1) as u64) as i64;
    let pl = wr.plans[(sn - 1) as usize].clone();
    let reader = self.reader_eid_choice(ctx);
    match pl.kind {
      Kind::Plain => {
        let mut subs = self.data_sub(wi, sn, reader);
        // sometimes two samples in one message, each under its own timestamp
        if ctx.ch.chance(1, 4) {
          let wr = &self.writers[wi];
          let sn2 = wr.first_avail + ctx.ch.draw((wr.written() - wr.first_avail + 1) as u64) as i64;
          if matches!(wr.plans[(sn2 - 1) as usize].kind, Kind::Plain) {
            // a second DATA in the same message inherits the message's timestamp state, so it says
            // explicitly what its own is
            let mut more = self.data_sub(wi, sn2, reader);
            if !matches!(more.first(), Some(Sub::InfoTs { .. })) {
              more.insert(0, Sub::InfoTs { ticks: None });
            }
            subs.extend(more);
            ctx.count("probe.two_data_in_one_message");
          }
        }
        self.push_flight(wi, subs, ctx);
        ctx.count("op.resend_data");
      }
      Kind::Frag { .. } => {
        let n = pl.nfrags();
        let f = 1 + ctx.ch.draw(n as u64) as u32;
        let cnt = (1 + ctx.ch.draw(2) as u32).min(n - f + 1);
        let subs = self.frag_sub(wi, sn, f, cnt as u16, reader);
        self.push_flight(wi, subs, ctx);
        ctx.count("op.resend_fragment");
      }
      Kind::Never => {}
    }
  }

  fn emit_gap(&mut self, wi: usize, p: &Params, ctx: &mut Ctx) {
    let wr = &self.writers[wi];
    let cands: Vec<i64> = (1..=wr.written()).filter(|s| wr.gappable(*s)).collect();
    if cands.is_empty() {
      return;
    }
    let start = *ctx.ch.pick(&cands);
    let mut base = start + 1;
    while wr.gappable(base) {
      base += 1;
    }
    // sometimes do not use the whole contiguous run
    if base - start > 1 && ctx.ch.chance(1, 4) {
      base = start + 1 + ctx.ch.draw((base - start - 1) as u64) as i64;
    }
    let window = if p.wide_window { 256 } else { 64 };
    let members: Vec<i64> = (base..base + window)
      .filter(|s| wr.gappable(*s))
      .filter(|_| ctx.ch.flag())
      .collect();
    let reader = self.reader_eid_choice(ctx);
    let list = SnSet::from_members(base, &members);
    let subs = vec![Sub::Gap {
      reader,
      writer: wr.eid,
      start,
      list,
    }];
    self.push_flight(wi, subs, ctx);
    ctx.count("op.gap");
  }

  // ---------------------------------------------------------------------------
  // delivery + model update + ACKNACK oracle
  // ---------------------------------------------------------------------------

  fn applies_to(&self, ri: usize, reader_eid: Eid) -> bool {
    reader_eid == wire::EID_UNKNOWN || reader_eid == self.readers[ri].eid
  }

  fn deliver_at(&mut self, i: usize, keep: bool, ctx: &mut Ctx) -> Check {
    let f = if keep {
      self.bag[i].clone()
    } else {
      self.bag.remove(i)
    };
    ctx.logf(|| format!("deliver #{} {}", f.id, f.brief));
    ctx.count("net.delivered");
    let wi = f.writer_ix;
    let (msg, _) = wire::decode_msg(&f.bytes).expect("own message decodes");
    let matched = self.writers[wi].matched;
    let now = simcore::now_ns();

    // what the delivery tells each reader (model), submessage by submessage;
    // heartbeats are always last in our messages, so the reader's reply is
    // evaluated against the model after the whole message has been applied
    let mut dst_ok = true;
    let mut hb_for_reader: Vec<Option<(i64, i64, bool, bool)>> = vec![None; self.readers.len()];
    for s in &msg.subs {
      match s {
        Sub::InfoDst { prefix } => {
          dst_ok = *prefix == self.node_prefix || *prefix == [0u8; 12];
        }
        _ if !dst_ok => {}
        // Before the match only superset knowledge is recorded: the reader may
        // legitimately keep fragments that arrived early (its fragment assembler
        // does not depend on the match), and it must ignore everything else.
        Sub::Data { reader, sn, .. } if !matched => {
          for ri in 0..self.readers.len() {
            if self.applies_to(ri, *reader) {
              self.tracks[ri][wi].data_delivered.insert(*sn);
            }
          }
        }
        Sub::DataFrag {
          reader,
          sn,
          frag_start,
          frags_in_sub,
          ..
        } if !matched => {
          for ri in 0..self.readers.len() {
            if self.applies_to(ri, *reader) {
              let t = &mut self.tracks[ri][wi];
              let e = t.frags_delivered.entry(*sn).or_default();
              for k in 0..*frags_in_sub as u32 {
                e.insert(frag_start + k);
              }
              // what the assembler holds for this sample is unknown from now on
              t.ambiguous.insert(*sn);
            }
          }
        }
        _ if !matched => {}
        Sub::Data { reader, sn, .. } => {
          for ri in 0..self.readers.len() {
            if self.applies_to(ri, *reader) {
              let t = &mut self.tracks[ri][wi];
              t.data_delivered.insert(*sn);
              if !t.unavail_acc(*sn) && !t.received.contains(sn) {
                t.received.insert(*sn);
                t.frags_held.remove(sn);
                t.ambiguous.remove(sn);
              }
            }
          }
        }
        Sub::DataFrag {
          reader,
          sn,
          frag_start,
          frags_in_sub,
          ..
        } => {
          let n = self.writers[wi].plans[(*sn - 1) as usize].nfrags();
          for ri in 0..self.readers.len() {
            if self.applies_to(ri, *reader) {
              // a DATAFRAG arrival is the only moment the reader may drop idle
              // assembly buffers (of any writer): mark what becomes uncertain
              for t in self.tracks[ri].iter_mut() {
                let idle: Vec<i64> = t
                  .frags_held
                  .iter()
                  .filter(|(_, h)| now.saturating_sub(h.1) >= GC_RELAX_NS)
                  .map(|(s, _)| *s)
                  .collect();
                for s in idle {
                  if t.ambiguous.insert(s) {
                    ctx.count("probe.assembly_gc_window");
                  }
                }
              }
              let t = &mut self.tracks[ri][wi];
              let e = t.frags_delivered.entry(*sn).or_default();
              for k in 0..*frags_in_sub as u32 {
                e.insert(frag_start + k);
              }
              if !t.unavail_acc(*sn) && !t.received.contains(sn) {
                let amb = t.ambiguous.contains(sn);
                let h = t.frags_held.entry(*sn).or_insert((BTreeSet::new(), now));
                for k in 0..*frags_in_sub as u32 {
                  h.0.insert(frag_start + k);
                }
                h.1 = now;
                if !amb && (1..=n).all(|f| h.0.contains(&f)) {
                  t.frags_held.remove(sn);
                  t.received.insert(*sn);
                }
              }
            }
          }
        }
        Sub::Gap {
          reader,
          start,
          list,
          ..
        } => {
          for ri in 0..self.readers.len() {
            if self.applies_to(ri, *reader) {
              let t = &mut self.tracks[ri][wi];
              for s in *start..list.base {
                t.unavail_sup.insert(s);
              }
              for s in &list.members {
                t.unavail_sup.insert(*s);
              }
              if *start >= 1 && list.base >= 1 {
                for s in *start..list.base {
                  t.unavail_acc.insert(s);
                }
                for s in &list.members {
                  t.unavail_acc.insert(*s);
                }
              }
            }
          }
        }
        Sub::Heartbeat {
          reader,
          first,
          last,
          count,
          final_flag,
          ..
        } => {
          for ri in 0..self.readers.len() {
            // HEARTBEAT.first is a fact about the writer's history, whichever
            // reader the submessage names: superset knowledge for every reader
            self.tracks[ri][wi].unavail_below_sup = self.tracks[ri][wi].unavail_below_sup.max(*first);
            if self.applies_to(ri, *reader) {
              let rel = self.readers[ri].reliable;
              let t = &mut self.tracks[ri][wi];
              let accepted = rel && (!t.hb_seen || *count > t.hb_count_acc);
              if accepted {
                t.hb_seen = true;
                t.hb_count_acc = *count;
                t.unavail_below_acc = t.unavail_below_acc.max(*first);
              }
              if accepted {
                t.last_adv = Some((*first, *last));
              }
              hb_for_reader[ri] = Some((*first, *last, *final_flag, accepted));
            }
          }
        }
        _ => {}
      }
    }

    self.node.deliver(&f.bytes);

    // ---- what did the node send in reply? ----------------------------------------
    let out = simcore::take_outbox();
    let mut replies: Vec<(usize, Vec<Sub>)> = vec![]; // (reader ix, subs)
    for d in &out {
      let (m, _) = match wire::decode_msg(&d.bytes) {
        Ok(x) => x,
        Err(e) => {
          return Err(v(
            "C14/emitted-message-undecodable",
            format!("reader node emitted a datagram the independent decoder rejects: {e}"),
          ))
        }
      };
      ctx.logf(|| format!("  reply to {} : {}", d.dst, wire::msg_brief(&d.bytes)));
      for s in &m.subs {
        let reid = match s {
          Sub::AckNack { reader, .. } | Sub::NackFrag { reader, .. } => Some(*reader),
          _ => None,
        };
        if let Some(reid) = reid {
          if let Some(ri) = self.readers.iter().position(|r| r.eid == reid) {
            match replies.iter_mut().find(|(x, _)| *x == ri) {
              Some((_, v)) => v.push(s.clone()),
              None => replies.push((ri, vec![s.clone()])),
            }
          }
        }
      }
    }
    if self.focus == Focus::C03 {
      self.check_acknacks(wi, &hb_for_reader, &replies, now, ctx)?;
    }
    if self.focus == Focus::C05 {
      // completeness: a sample all of whose fragments were delivered to a reader
      // during the match (no GC ambiguity, not declared unavailable) is known to
      // that reader's writer proxy as received
      for ri in 0..self.readers.len() {
        let t = &self.tracks[ri][wi];
        let frag_sns: Vec<i64> = t
          .received
          .iter()
          .copied()
          .filter(|sn| self.writers[wi].plans[(*sn - 1) as usize].nfrags() > 0 && !t.ambiguous.contains(sn))
          .collect();
        if frag_sns.is_empty() {
          continue;
        }
        if let Some(rv) = self.node.reader_view(&self.readers[ri].r) {
          if let Some(px) = rv.matched_writers.iter().find(|m| m.writer == self.writers[wi].guid) {
            for sn in frag_sns {
              let known = sn < px.ack_base || px.changes.iter().any(|(s, _)| *s == sn);
              if !known {
                return Err(v(
                  "C05/complete-fragment-set-not-assembled",
                  format!(
                    "every fragment of sn {sn} of writer {wi} was delivered to reader {ri}, but the reader does not have the sample (ack base {}, known {:?})",
                    px.ack_base, px.changes
                  ),
                ));
              }
            }
          }
        }
      }
    }
    // fold the abstract state into the fingerprint
    for ri in 0..self.readers.len() {
      let t = &self.tracks[ri][wi];
      ctx.state(
        (t.received.len() as u64) << 32
          | (t.frags_held.len() as u64) << 16
          | (t.unavail_acc.len() as u64 & 0xffff),
      );
    }
    Ok(())
  }

  fn check_acknacks(
    &mut self,
    wi: usize,
    hbs: &[Option<(i64, i64, bool, bool)>],
    replies: &[(usize, Vec<Sub>)],
    now: u64,
    ctx: &mut Ctx,
  ) -> Check {
    let weid = self.writers[wi].eid;
    let written = self.writers[wi].written();
    for ri in 0..self.readers.len() {
      let subs: Vec<Sub> = replies
        .iter()
        .find(|(x, _)| *x == ri)
        .map(|(_, s)| s.clone())
        .unwrap_or_default();
      let subs: Vec<Sub> = subs
        .into_iter()
        .filter(|s| match s {
          Sub::AckNack { writer, .. } | Sub::NackFrag { writer, .. } => *writer == weid,
          _ => false,
        })
        .collect();
      let t = &self.tracks[ri][wi];
      let plans = &self.writers[wi].plans;
      let nfr = |sn: i64| -> u32 {
        if sn >= 1 && sn <= written {
          plans[(sn - 1) as usize].nfrags()
        } else {
          0
        }
      };

      if !self.readers[ri].reliable || !self.writers[wi].matched {
        continue;
      }
      // the range the writer last advertised: the heartbeat being answered, or
      // (for a reply to something else) the last accepted one
      let (first, last, final_flag, accepted) = match (hbs[ri], t.last_adv) {
        (Some((f, l, fin, true)), _) => (f, l, fin, true),
        (_, Some((f, l))) => (f, l, true, false),
        (Some((f, l, fin, false)), None) => (f, l, fin, false),
        (None, None) => {
          if subs.is_empty() {
            continue;
          }
          (1, 0, true, false)
        }
      };

      // frontier from superset knowledge: the reader cannot know more than this
      let mut frontier_sup = 1i64;
      while frontier_sup <= written + 300
        && (t.complete_sup(frontier_sup, nfr(frontier_sup)) || t.unavail_sup(frontier_sup))
      {
        frontier_sup += 1;
      }

      let mut new_base = t.last_base;
      let mut new_count = t.last_count;
      let mut new_count_nf = t.last_count_nf;
      let mut acknack_set: Option<(i64, Vec<i64>)> = None;
      let mut nackfrags: Vec<(i64, Vec<u32>)> = vec![];
      for s in &subs {
        let count = match s {
          Sub::AckNack { count, .. } | Sub::NackFrag { count, .. } => *count,
          _ => unreachable!(),
        };
        // (d) counts grow (within each submessage kind)
        let slot = if matches!(s, Sub::AckNack { .. }) {
          &mut new_count
        } else {
          &mut new_count_nf
        };
        if let Some(c) = *slot {
          if count <= c {
            return Err(v(
              "C03/count-not-increasing",
              format!("reader {ri}: {} has count {count} after count {c}", wire::sub_brief(s)),
            ));
          }
        }
        *slot = Some(count);
        match s {
          Sub::AckNack { state, .. } => {
            ctx.count("probe.acknack_checked");
            // (a) never acknowledge what cannot have been received / declared unavailable
            if state.base > frontier_sup {
              return Err(v(
                "C03/base-beyond-frontier",
                format!(
                  "reader {ri} acknowledges everything below {} but sequence number {} of writer {wi} was neither delivered nor declared unavailable",
                  state.base, frontier_sup
                ),
              ));
            }
            // (b) never decreases during a match
            if state.base < new_base {
              return Err(v(
                "C03/base-decreased",
                format!("reader {ri}: ACKNACK base {} after base {}", state.base, new_base),
              ));
            }
            new_base = state.base;
            for m in &state.members {
              // (c) listed as missing => really missing, and advertised
              if *m < first || *m > last {
                return Err(v(
                  "C03/request-outside-advertised-range",
                  format!("reader {ri} requests {m}, heartbeat advertised [{first},{last}]"),
                ));
              }
              if t.received.contains(m) && !t.ambiguous.contains(m) {
                return Err(v(
                  "C03/request-for-received",
                  format!("reader {ri} requests {m} of writer {wi}, which was delivered to it completely"),
                ));
              }
              if t.unavail_acc(*m) {
                return Err(v(
                  "C03/request-for-unavailable",
                  format!("reader {ri} requests {m} of writer {wi}, which a GAP/HEARTBEAT declared unavailable"),
                ));
              }
            }
            if state.members.len() > 1 {
              ctx.count("probe.acknack_multi_request");
            }
            if state.num_bits > 64 {
              ctx.count("probe.acknack_window_over_64");
            }
            if state.num_bits == 256 {
              ctx.count("probe.acknack_window_full_256");
            }
            acknack_set = Some((state.base, state.members.clone()));
          }
          Sub::NackFrag { sn, state, .. } => {
            ctx.count("probe.nackfrag_checked");
            if *sn < first || *sn > last {
              return Err(v(
                "C03/nackfrag-outside-advertised-range",
                format!("reader {ri} NACKFRAG for {sn}, heartbeat advertised [{first},{last}]"),
              ));
            }
            if t.received.contains(sn) && !t.ambiguous.contains(sn) {
              return Err(v(
                "C03/nackfrag-for-received",
                format!("reader {ri} NACKFRAG for {sn}, which it received completely"),
              ));
            }
            nackfrags.push((*sn, state.members.clone()));
          }
          _ => {}
        }
      }

      // (e) the lowest missing advertised sample is requested
      if accepted {
        let lo = first.max(1);
        let mut lowest_missing: Option<i64> = None;
        let mut undecidable = false;
        let mut s = lo;
        while s <= last {
          if t.ambiguous.contains(&s) {
            undecidable = true;
            break;
          }
          if !t.received.contains(&s) && !t.unavail_acc(s) {
            lowest_missing = Some(s);
            break;
          }
          s += 1;
        }
        let _ = now;
        match lowest_missing {
          _ if undecidable => {
            ctx.count("probe.acknack_clause_e_skipped_gc_window");
          }
          Some(l) => {
            ctx.count("probe.heartbeat_with_missing");
            let held = t.frags_held.get(&l);
            let stale = false;
            let in_acknack = acknack_set.as_ref().map_or(false, |(_, m)| m.contains(&l));
            let nf = nackfrags.iter().find(|(sn, _)| *sn == l);
            match held {
              Some(h) if !stale => {
                // some fragments arrived: NACKFRAG naming exactly the missing ones
                let n = nfr(l);
                let missing: Vec<u32> = (1..=n).filter(|f| !h.0.contains(f)).collect();
                let first_missing = missing[0];
                let expect: Vec<u32> = missing
                  .iter()
                  .copied()
                  .filter(|f| *f < first_missing + 256)
                  .collect();
                match nf {
                  Some((_, got)) => {
                    if *got != expect {
                      return Err(v(
                        "C03/nackfrag-wrong-fragments",
                        format!("reader {ri} NACKFRAG for {l} names {got:?}, missing fragments are {expect:?}"),
                      ));
                    }
                    ctx.count("probe.nackfrag_exact");
                  }
                  None => {
                    if !in_acknack {
                      return Err(v(
                        "C03/lowest-missing-not-requested",
                        format!("reader {ri}: heartbeat [{first},{last}] of writer {wi}: lowest missing {l} (partially received) is in no NACKFRAG and not in the ACKNACK"),
                      ));
                    }
                  }
                }
              }
              _ => {
                if !in_acknack && nf.is_none() {
                  return Err(v(
                    "C03/lowest-missing-not-requested",
                    format!(
                      "reader {ri}: heartbeat [{first},{last}] of writer {wi}: lowest missing {l} is not requested (ACKNACK {:?})",
                      acknack_set
                    ),
                  ));
                }
              }
            }
          }
          None => {
            // nothing missing: a non-final heartbeat must still be answered
            if !final_flag && acknack_set.is_none() {
              return Err(v(
                "C03/non-final-heartbeat-unanswered",
                format!("reader {ri} did not answer heartbeat [{first},{last}] (final flag not set) of writer {wi}"),
              ));
            }
          }
        }
      }
      let t = &mut self.tracks[ri][wi];
      t.last_base = new_base;
      t.last_count = new_count;
      t.last_count_nf = new_count_nf;
    }
    Ok(())
  }

  // ---------------------------------------------------------------------------
  // application take + hand-over oracle
  // ---------------------------------------------------------------------------

  fn take(&mut self, ri: usize, all: bool, ctx: &mut Ctx) -> Check {
    ctx.count("op.take");
    loop {
      let c = match self.readers[ri].r.take_one() {
        None => break,
        Some(c) => c,
      };
      self.check_handed(ri, &c, ctx)?;
      if !all {
        break;
      }
    }
    Ok(())
  }

  fn check_handed(&mut self, ri: usize, c: &ChangeView, ctx: &mut Ctx) -> Check {
    let wi = match self.writers.iter().position(|w| w.guid == c.writer) {
      Some(i) => i,
      None => {
        return Err(v(
          "C01/S4-unknown-writer",
          format!("reader {ri} handed over a sample of unknown writer {:02x?}", c.writer),
        ))
      }
    };
    ctx.logf(|| format!("take r{ri}: w{wi} sn {}", c.sn));
    let reliable = self.readers[ri].reliable;
    let wr = &self.writers[wi];
    let t = &self.tracks[ri][wi];
    // All readers of a topic in one participant share one receive cache (and its
    // per-writer "reliably received before" marker), so for the hand-over
    // clauses "delivered" and "declared unavailable" are taken at the level of
    // the participant's readers of this topic: the union over the readers.
    let union = {
      let mut u = t.clone();
      for (rj, tr) in self.tracks.iter().enumerate() {
        if rj != ri {
          let o = &tr[wi];
          u.data_delivered.extend(o.data_delivered.iter().copied());
          for (s, f) in &o.frags_delivered {
            u.frags_delivered.entry(*s).or_default().extend(f.iter().copied());
          }
          u.unavail_sup.extend(o.unavail_sup.iter().copied());
          u.unavail_below_sup = u.unavail_below_sup.max(o.unavail_below_sup);
        }
      }
      u
    };
    let sn = c.sn;
    let c01 = self.focus == Focus::C01;
    let c05 = self.focus == Focus::C05;
    if sn < 1 || sn > wr.written() {
      return Err(v(
        "C01/S4-never-written",
        format!("reader {ri} handed over sn {sn} of writer {wi}, which wrote only up to {}", wr.written()),
      ));
    }
    let plan = &wr.plans[(sn - 1) as usize];
    let nfr = plan.nfrags();
    // S1: strictly increasing, at most once
    if (c01 || c05) && reliable {
      if let Some(last) = t.handed.last() {
        if sn <= *last {
          return Err(v(
            if t.handed.contains(&sn) {
              "C01/S1-handed-twice"
            } else {
              "C01/S1-out-of-order"
            },
            format!("reader {ri}: sn {sn} of writer {wi} handed over after {last}"),
          ));
        }
      }
    } else if t.handed.contains(&sn) && (c01 || c05) {
      return Err(v(
        "C01/S1-handed-twice",
        format!("best-effort reader {ri}: sn {sn} of writer {wi} handed over twice"),
      ));
    }
    // S4 / C05: only what was delivered, fragmented samples only when complete
    if c01 || c05 {
      if matches!(plan.kind, Kind::Never) {
        return Err(v(
          "C01/S4-never-sent",
          format!("reader {ri} handed over sn {sn} of writer {wi}, which was never transmitted"),
        ));
      }
      if !union.complete_sup(sn, nfr) {
        return Err(v(
          if nfr > 0 {
            "C05/sample-from-incomplete-fragments"
          } else {
            "C01/S4-not-delivered"
          },
          format!(
            "reader {ri} handed over sn {sn} of writer {wi} but the deliveries so far do not contain it completely (fragments delivered: {:?} of {nfr})",
            t.frags_delivered.get(&sn)
          ),
        ));
      }
      // S3: unaltered
      match &c.data {
        ChangeData::Data {
          rep_id,
          rep_opts,
          value,
        } => {
          let mut got = Vec::with_capacity(4 + value.len());
          got.extend_from_slice(rep_id);
          got.extend_from_slice(rep_opts);
          got.extend_from_slice(value);
          let ok = if nfr > 0 {
            got == plan.payload
          } else {
            eq_mod_padding(&got, &plan.payload)
          };
          if !ok {
            return Err(v(
              if nfr > 0 {
                "C05/reassembled-bytes-differ"
              } else {
                "C01/S3-payload-differs"
              },
              format!(
                "reader {ri}: sn {sn} of writer {wi}: handed {} bytes, written {} bytes, first difference at {:?}",
                got.len(),
                plan.payload.len(),
                got.iter().zip(plan.payload.iter()).position(|(a, b)| a != b)
              ),
            ));
          }
        }
        other => {
          return Err(v(
            "C01/S3-kind-differs",
            format!("reader {ri}: sn {sn} of writer {wi} written as data, handed over as {other:?}"),
          ))
        }
      }
      if c.source_ticks != plan.src_ticks {
        return Err(v(
          "C01/S3-source-timestamp-differs",
          format!(
            "reader {ri}: sn {sn} of writer {wi}: source timestamp {:?}, sent {:?}",
            c.source_ticks, plan.src_ticks
          ),
        ));
      }
    }
    // S2: no holes (reliable readers)
    if c01 && reliable {
      for m in 1..sn {
        if !t.handed.contains(&m) && !union.unavail_sup(m) {
          return Err(v(
            "C01/S2-hole",
            format!(
              "reader {ri} handed over sn {sn} of writer {wi} although sn {m} was neither handed over nor declared unavailable"
            ),
          ));
        }
      }
    }
    if nfr > 0 {
      ctx.count("probe.fragmented_sample_handed_over");
    }
    if t.handed.last().map_or(sn > 1, |l| sn > l + 1) {
      ctx.count("probe.handed_over_across_gap");
    }
    self.tracks[ri][wi].handed.push(sn);
    // (a hand-over does not resolve an ambiguous sample: with two readers on the
    // topic the sample may have come through the other reader's proxy)
    ctx.state(0x1000_0000_0000 | (ri as u64) << 40 | (wi as u64) << 32 | sn as u64);
    Ok(())
  }
}

