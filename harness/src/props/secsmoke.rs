//! development smoke test: two security-enabled participants in engine E2 (feature `security`)
use rustdds::{
  policy::History, with_key::{DataReader, DataWriter}, DomainParticipantBuilder, DomainParticipantSecurityConfigFiles, TopicKind,
};

use super::Spec;
use crate::{
  ctx::{Check, Ctx, Violation},
  e2::{self, SEC},
  e2rig::*,
};

pub fn spec() -> Spec {
  Spec {
    id: "X02",
    engine: "E2+security",
    level: "exploration",
    rule: "smoke",
    quick_runs: 20,
    quick_secs: 120.0,
    thorough_runs: 100,
    thorough_secs: 300.0,
    batch: 1,
    per_run_timeout_s: 120.0,
    real: &[],
    stub: &[],
    assumptions: &[],
  }
}

pub fn run(_tier: &str, ctx: &mut Ctx) -> Check {
  e2::enter(ctx);
  let r = body();
  e2::leave(ctx);
  r
}

pub fn secure_participant(node: u32, dir: &str) -> Result<Leak<rustdds::DomainParticipant>, Violation> {
  simcore::set_node(node);
  DomainParticipantBuilder::new(0)
    .builtin_security(DomainParticipantSecurityConfigFiles::with_ros_default_names(
      format!("/verif/fixtures/sec/{dir}"),
      "password123".to_string(),
    ))
    .build()
    .map(leak)
    .map_err(|e| herr("secure participant", e))
}

fn body() -> Check {
  let q = qos(true, History::KeepAll, false);
  let dp1 = secure_participant(1, "p1")?;
  e2::log("dp1 created");
  let dp2 = secure_participant(2, "p2")?;
  e2::log("dp2 created");
  simcore::set_node(1);
  let t1 = leak(dp1.create_topic("Square".into(), "Msg".into(), &q, TopicKind::WithKey).map_err(|e| herr("topic", e))?);
  let p1 = leak(dp1.create_publisher(&q).map_err(|e| herr("pub", e))?);
  let w: Leak<DataWriter<Msg>> = leak(p1.create_datawriter_cdr(&t1, None).map_err(|e| herr("writer", e))?);
  simcore::set_node(2);
  let t2 = leak(dp2.create_topic("Square".into(), "Msg".into(), &q, TopicKind::WithKey).map_err(|e| herr("topic", e))?);
  let s2 = leak(dp2.create_subscriber(&q).map_err(|e| herr("sub", e))?);
  let mut r: Leak<DataReader<Msg>> = leak(s2.create_datareader_cdr(&t2, None).map_err(|e| herr("reader", e))?);
  e2::log("entities created");
  e2::run_for(15 * SEC)?;
  simcore::set_node(1);
  w.write(Msg { k: 1, v: vec![1, 2, 3] }, None).map_err(|e| herr("write", e))?;
  e2::log("written");
  e2::run_for(5 * SEC)?;
  simcore::set_node(2);
  let got = r.take(10, rustdds::ReadCondition::any()).map_err(|e| herr("take", e))?;
  e2::log(&format!("taken {}", got.len()));
  e2::with(|st| st.ctx.nontrivial = !got.is_empty());
  if got.is_empty() {
    return Err(Violation::new("X02/no-delivery", "sample did not arrive"));
  }
  Ok(())
}
