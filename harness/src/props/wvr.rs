//! Scenario "real reliable Writer vs scripted readers" (engine E1): decides
//! C04 (retention, bounds, answering requests, heartbeat contents, per-reader
//! relevance) and the writer-level half of C20 (wait_for_acknowledgments).
//!
//! The readers are harness objects with their own GUID prefixes and locators;
//! they send ACKNACKs with any base/bitmap (inside and outside the advertised
//! range), are matched, lost and re-matched at seed-chosen points, and see
//! exactly what the writer transmits to their locator.

use std::collections::{BTreeMap, BTreeSet};

use rustdds::verif::{AckWait, LocalWriter, SimNode, WritePayload, WriterView};

use crate::{
  ctx::{Check, Ctx},
  e1::*,
  e1world::*,
  wire::{self, Eid, Guid, SnSet, Sub},
};

#[derive(Clone, Copy, PartialEq, Eq, Debug)]
pub enum Focus {
  C04,
  C20,
}

struct SReader {
  node: u32,
  guid: Guid,
  eid: Eid,
  reliable: bool,
  matched: bool,
  ever_matched: bool,
  acknack_count: i32,
  /// last base sent during the current match (a real reader's base never decreases: C03)
  last_base_sent: i64,
  /// highest base this reader sent in an ACKNACK the writer has processed while matched
  acked_before: i64,
  /// the same, as the writer's wait logic sees it (raw base, 0 stays 0)
  acked_raw: i64,
  /// what arrived at this reader's locator: sn -> payload bytes (DATA) / assembled fragments
  got_data: BTreeMap<i64, Vec<u8>>,
  got_frags: BTreeMap<i64, BTreeMap<u32, Vec<u8>>>,
  got_frag_meta: BTreeMap<i64, (u16, u32)>,
  got_gap: BTreeSet<i64>,
  /// outstanding requests: sn -> deadline (sim ns)
  requests: BTreeMap<i64, u64>,
  /// single-reader samples of others for which this reader must be sent a GAP once it asks: sn -> deadline
  gap_due: BTreeMap<i64, u64>,
  last_hb: Option<(i64, i64)>,
}

struct Sample {
  payload: Vec<u8>,
  single: Option<usize>, // index of the only reader it is meant for
  src_ticks: u64,
}

pub struct Params {
  pub focus: Focus,
  pub max_ops: u64,
  pub max_writes: usize,
}

const TOPIC: &str = "T";
const TYPE: &str = "Blob";

pub fn run(p: &Params, ctx: &mut Ctx) -> Check {
  let mut w = World::new();
  w.periodic_on = false; // a writer-only node: no receive-side periodic work matters here
  let keep_all = ctx.ch.chance(1, 3);
  let depth = 1 + ctx.ch.draw(5) as i32;
  let tl = ctx.ch.flag();
  let wq = qos(true, keep_all, depth, tl, 0);
  let limit: Option<usize> = if keep_all { None } else { Some(depth as usize) };
  let mut wnode = SimNode::new(1, prefix_for(1), 0);
  let mut lw = wnode.add_writer(EID_WRITER_1, TOPIC, &wq);
  let frag = *ctx.ch.pick(&[1024usize, 64, 16]);
  let be = ctx.ch.chance(1, 4);
  wnode.writer_tuning(&lw, Some(frag), Some(be));
  let wix = w.add_node(wnode);
  let wguid = lw.guid_bytes();
  let weid = wire::eid_of(&wguid);

  let n_readers = ctx.ch.draw(5) as usize; // 0..4
  let mut readers: Vec<SReader> = vec![];
  for i in 0..n_readers {
    let node = 50 + i as u32;
    let eid = [0, 0, 0x40 + i as u8, 0x07];
    w.add_scripted(node);
    readers.push(SReader {
      node,
      guid: wire::guid(prefix_for(node), eid),
      eid,
      reliable: !ctx.ch.chance(1, 3),
      matched: false,
      ever_matched: false,
      acknack_count: 0,
      last_base_sent: 0,
      acked_before: 0,
      acked_raw: 0,
      got_data: BTreeMap::new(),
      got_frags: BTreeMap::new(),
      got_frag_meta: BTreeMap::new(),
      got_gap: BTreeSet::new(),
      requests: BTreeMap::new(),
      gap_due: BTreeMap::new(),
      last_hb: None,
    });
  }
  let n_ops = ctx.ch.range(4, p.max_ops);
  ctx.logf(|| {
    format!(
      "cfg keep_all={keep_all} depth={depth} tl={tl} frag={frag} be={be} readers={:?} ops={n_ops}",
      readers.iter().map(|r| if r.reliable { 'R' } else { 'B' }).collect::<String>()
    )
  });

  let mut s = St {
    w,
    wix,
    lw_guid: wguid,
    weid,
    readers,
    samples: BTreeMap::new(),
    limit,
    focus: p.focus,
    wait: None,
    frag,
    removed_ok_checked: 0,
    volatile: !tl,
    src_mode: (depth as usize + frag / 16) % 3,
  };
  for i in 0..s.readers.len() {
    if ctx.ch.chance(3, 4) {
      s.do_match(i, ctx)?;
    }
  }

  for _ in 0..n_ops {
    let can_write = s.samples.len() < p.max_writes;
    let nr = s.readers.len() as u64;
    let weights: [u64; 9] = [
      20,                                  // 0 world steps
      if can_write { 25 } else { 0 },      // 1 write
      if nr > 0 { 22 } else { 0 },         // 2 a reader sends an ACKNACK
      8,                                   // 3 small time advance
      if p.focus == Focus::C04 { 4 } else { 1 }, // 4 jump over a cache-cleaning period (2 min)
      if nr > 0 { 5 } else { 0 },          // 5 match / lose a reader
      if p.focus == Focus::C20 { 12 } else { 2 }, // 6 wait_for_acknowledgments
      3,                                   // 7 manual heartbeat tick
      if nr > 0 { 6 } else { 0 },          // 8 a reader answers the last heartbeat honestly
    ];
    let before = s.view();
    match ctx.ch.weighted(&weights) {
      0 => {
        let k = 1 + ctx.ch.draw(6);
        let lim = simcore::now_ns() + SEC;
        for _ in 0..k {
          let b = s.view();
          if !s.w.step(lim, ctx)? {
            break;
          }
          s.after_step(&b, ctx)?;
        }
      }
      1 => s.op_write(&mut lw, ctx)?,
      2 => s.op_acknack(ctx, false)?,
      3 => {
        let d = *ctx.ch.pick(&[MS, 30 * MS, 250 * MS, SEC + 50 * MS]);
        s.run_for(d, ctx)?;
      }
      4 => {
        s.run_for(121 * SEC, ctx)?;
        ctx.count("probe.cache_cleaning_period_crossed");
        s.check_bound_after_cleaning(ctx)?;
      }
      5 => {
        let i = ctx.ch.index(s.readers.len());
        if s.readers[i].matched {
          s.do_lose(i, ctx)?;
        } else {
          s.do_match(i, ctx)?;
        }
      }
      6 => s.op_wait(&mut lw, ctx)?,
      7 => {
        s.w.nodes[s.wix].heartbeat_tick(&lw, ctx.ch.flag());
        s.w.flush_outbox(ctx)?;
      }
      _ => s.op_acknack(ctx, true)?,
    }
    s.after_step(&before, ctx)?;
  }
  // closing: let every outstanding obligation run out its budget
  s.run_for(6 * SEC, ctx)?;
  let v_end = s.view();
  ctx.nontrivial = !s.samples.is_empty();
  ctx.add("samples_written", s.samples.len() as u64);
  ctx.add("history_at_end", v_end.history.len() as u64);
  Ok(())
}

struct WaitSt {
  aw: AckWait,
  processed: bool,
  wait_until: i64,
  need: BTreeSet<usize>,
  reported: bool,
  /// sim time at which the model's condition became true
  cond_true_at: Option<u64>,
}

struct St {
  w: World,
  wix: usize,
  lw_guid: Guid,
  weid: Eid,
  readers: Vec<SReader>,
  samples: BTreeMap<i64, Sample>,
  limit: Option<usize>,
  focus: Focus,
  wait: Option<WaitSt>,
  frag: usize,
  removed_ok_checked: u64,
  volatile: bool,
  /// how the application stamps its samples (derived from the configuration, no extra decision)
  src_mode: usize,
}

impl St {
  fn view(&self) -> WriterView {
    // the writer is identified by entity id inside the node
    self.w.nodes[self.wix]
      .writer_view_by_eid(self.weid)
      .expect("writer view")
  }

  fn run_for(&mut self, d: u64, ctx: &mut Ctx) -> Check {
    let until = simcore::now_ns() + d;
    loop {
      let b = self.view();
      if !self.w.step(until, ctx)? {
        break;
      }
      self.after_step(&b, ctx)?;
    }
    simcore::advance_to(until);
    Ok(())
  }

  fn do_match(&mut self, i: usize, ctx: &mut Ctx) -> Check {
    let r = &mut self.readers[i];
    let q = qos(r.reliable, true, 0, !self.volatile && r.reliable, 0);
    let d = rustdds::verif::discovered_reader(r.guid, TOPIC, TYPE, &q, &[node_addr(r.node)], &[]);
    r.matched = true;
    r.ever_matched = true;
    r.acked_before = 0;
    r.acked_raw = 0;
    r.last_base_sent = 0;
    r.requests.clear();
    r.gap_due.clear();
    ctx.logf(|| format!("match reader {i} ({})", if r.reliable { "reliable" } else { "best effort" }));
    ctx.count("op.match");
    self.w.nodes[self.wix].remote_reader_discovered(d);
    self.w.flush_outbox(ctx)
  }

  fn do_lose(&mut self, i: usize, ctx: &mut Ctx) -> Check {
    let by_participant = ctx.ch.flag();
    let r = &mut self.readers[i];
    r.matched = false;
    r.requests.clear();
    r.gap_due.clear();
    ctx.logf(|| format!("lose reader {i} (participant lost: {by_participant})"));
    ctx.count("fault.reader_or_participant_lost");
    if by_participant {
      let p = wire::prefix_of(&r.guid);
      self.w.nodes[self.wix].remote_participant_lost(p);
    } else {
      let g = r.guid;
      self.w.nodes[self.wix].remote_reader_lost(g);
    }
    if let Some(ws) = &mut self.wait {
      ws.need.remove(&i);
    }
    self.w.flush_outbox(ctx)
  }

  fn op_write(&mut self, lw: &mut LocalWriter, ctx: &mut Ctx) -> Check {
    let big = ctx.ch.chance(1, 4);
    let len = if big {
      let k = 1 + ctx.ch.draw(3) as usize;
      let r = *ctx.ch.pick(&[0usize, 1, 2, 3, self.frag - 1]);
      (k * self.frag + r).saturating_sub(4).max(1)
    } else {
      *ctx.ch.pick(&[8usize, 0, 1, 3, 6, 21])
    };
    let matched: Vec<usize> = (0..self.readers.len()).filter(|i| self.readers[*i].matched).collect();
    let single = if !matched.is_empty() && ctx.ch.chance(1, 5) {
      Some(*ctx.ch.pick(&matched))
    } else {
      None
    };
    let sn_next = lw.next_sn();
    let pl = payload_for(0, sn_next, len);
    // the application's source timestamps are its own business: increasing, all the same, or going backwards
    let src = match self.src_mode {
      0 => 0x7200_0000_0000_0000u64 + sn_next as u64,
      1 => 0x7200_0000_0000_0000u64,
      _ => 0x7200_0000_0001_0000u64 - sn_next as u64,
    };
    let to = single.map(|i| self.readers[i].guid);
    match lw.write(
      WritePayload::Data {
        rep_id: [pl[0], pl[1]],
        value: pl[4..].to_vec(),
      },
      Some(src),
      to,
    ) {
      Some(sn) => {
        ctx.logf(|| format!("write sn {sn} len {} single={single:?}", pl.len()));
        if single.is_some() {
          ctx.count("op.write_to_single_reader");
        } else if pl.len() > self.frag {
          ctx.count("op.write_fragmented");
        } else {
          ctx.count("op.write_plain");
        }
        self.samples.insert(
          sn,
          Sample {
            payload: pl,
            single,
            src_ticks: src,
          },
        );
      }
      None => {
        ctx.count("probe.writer_queue_full");
      }
    }
    // the event loop reacts to the command event now or a bit later
    if ctx.ch.chance(4, 5) {
      self.process_commands(lw, ctx)?;
    }
    Ok(())
  }

  fn process_commands(&mut self, lw: &LocalWriter, ctx: &mut Ctx) -> Check {
    // readers matched at the moment the writer looks at the command
    let matched_now: BTreeSet<usize> = (0..self.readers.len())
      .filter(|i| self.readers[*i].matched && self.readers[*i].reliable)
      .collect();
    // lenient view for the safety clause: base 0 counts as base 1, as the reader proxy stores it
    let acked: Vec<i64> = self.readers.iter().map(|r| r.acked_before).collect();
    self.w.nodes[self.wix].writer_command(lw);
    if let Some(ws) = &mut self.wait {
      if !ws.processed {
        ws.processed = true;
        ws.need = matched_now
          .into_iter()
          .filter(|i| acked[*i] <= ws.wait_until)
          .collect();
      }
    }
    self.w.flush_outbox(ctx)
  }

  fn op_wait(&mut self, lw: &mut LocalWriter, ctx: &mut Ctx) -> Check {
    if self.wait.as_ref().map_or(false, |w| !w.reported) {
      // one outstanding wait at a time (the public call is synchronous); the
      // earlier caller may have timed out and given up, after which the
      // application calls again
      if !ctx.ch.chance(1, 2) {
        return Ok(());
      }
      ctx.logf(|| "earlier wait abandoned (caller timed out)".to_string());
      ctx.count("op.wait_abandoned_then_called_again");
      self.wait = None;
    }
    // every write issued so far precedes the call
    self.process_commands(lw, ctx)?;
    let wait_until = self.view().last_sn;
    match lw.wait_for_acknowledgments() {
      None => Ok(()),
      Some(aw) => {
        ctx.logf(|| format!("wait_for_acknowledgments (everything up to sn {wait_until})"));
        ctx.count("op.wait_for_acknowledgments");
        self.wait = Some(WaitSt {
          aw,
          processed: false,
          wait_until,
          need: BTreeSet::new(),
          reported: false,
          cond_true_at: None,
        });
        if ctx.ch.chance(4, 5) {
          self.process_commands(lw, ctx)?;
        }
        Ok(())
      }
    }
  }

  fn op_acknack(&mut self, ctx: &mut Ctx, honest: bool) -> Check {
    let i = ctx.ch.index(self.readers.len());
    let last = self.view().last_sn;
    let first = self.view().first_sn;
    let r = &mut self.readers[i];
    let (base, members): (i64, Vec<i64>) = if honest {
      // acknowledge what really arrived, ask for the rest of the advertised range
      let (hf, hl) = r.last_hb.unwrap_or((first, last));
      let have = |sn: i64, r: &SReader| r.got_data.contains_key(&sn) || r.got_gap.contains(&sn) || sn < hf;
      let mut b = 1;
      while b <= hl && have(b, r) {
        b += 1;
      }
      let m: Vec<i64> = (b..=hl.min(b + 255)).filter(|s| !have(*s, r)).collect();
      (b, m)
    } else {
      // anything: bases 0..last+2, bitmaps inside and outside the advertised range
      let b = match ctx.ch.weighted(&[5, 2, 2, 1]) {
        0 => r.acked_before.max(1) + ctx.ch.draw((last + 2 - r.acked_before.max(1)).max(1) as u64) as i64,
        1 => last + 1,
        2 => ctx.ch.draw((last + 3) as u64) as i64,
        _ => 0,
      };
      let n = ctx.ch.draw(4);
      let mut m = vec![];
      for _ in 0..n {
        let off = ctx.ch.draw(12) as i64;
        if b + off >= 1 {
          m.push(b + off);
        }
      }
      m.sort();
      m.dedup();
      (b, m)
    };
    // any base and bitmap, except that the base never goes backwards within a match
    let base = if r.matched { base.max(r.last_base_sent) } else { base };
    let members: Vec<i64> = members.into_iter().filter(|m| *m >= base).collect();
    if r.matched {
      r.last_base_sent = base;
    }
    r.acknack_count += 1;
    let state = SnSet::from_members(base, &members);
    let fin = ctx.ch.flag();
    let subs = vec![
      Sub::InfoDst { prefix: prefix_for(1) },
      Sub::AckNack {
        reader: r.eid,
        writer: self.weid,
        state: state.clone(),
        count: r.acknack_count,
        final_flag: fin,
      },
    ];
    let bytes = wire::encode_msg(&wire::prefix_of(&r.guid), &subs, ctx.ch.chance(1, 4));
    ctx.logf(|| format!("reader {i} sends ACKNACK base {base} {:?} (matched={})", state.members, r.matched));
    ctx.count("op.acknack");
    if !honest && (base > last + 1 || state.members.iter().any(|m| *m > last)) {
      ctx.count("fault.acknack_beyond_written");
    }
    if !r.matched {
      ctx.count("fault.acknack_from_unmatched_reader");
    }
    let node = r.node;
    // deliver and let the writer process it (separately scheduled in the real loop)
    let before = self.view();
    self.w.nodes[self.wix].deliver(&bytes);
    let _ = node;
    // the writer processes it at once (deferring it would only blur the model's
    // notion of "acknowledged when"; reordering against other events is explored
    // by the choice of when readers send)
    self.w.nodes[self.wix].pump_acknacks();
    self.w.flush_outbox(ctx)?;
    // model: the writer has (or will have) seen this ACKNACK
    let now = simcore::now_ns();
    let r = &mut self.readers[i];
    if r.matched && r.reliable {
      let nb = base.max(1);
      if nb > r.acked_before {
        r.acked_before = nb;
      }
      r.acked_raw = r.acked_raw.max(base);
      // an acknowledgment cancels older requests; new requests for advertised samples are obligations
      let ab = r.acked_before;
      r.requests.retain(|sn, _| *sn >= ab && *sn >= nb);
      r.gap_due.retain(|sn, _| *sn >= nb);
      let budget = 3 * SEC + 150 * MS * (state.members.len() as u64 + 1);
      for sn in &state.members {
        if *sn >= 1 && *sn <= last {
          r.requests.entry(*sn).or_insert(now + budget + 400 * MS * (*sn - base).max(0) as u64);
        }
      }
    }
    Ok(())
  }

  /// absorb what arrived at the scripted readers; check everything that can be
  /// checked after one step
  fn after_step(&mut self, before: &WriterView, ctx: &mut Ctx) -> Check {
    let after = self.view();
    let now = simcore::now_ns();
    // ---- (d) heartbeat contents; (e) relevance; collect what readers received ----------
    let seen = self.w.drain_seen();
    for d in &seen {
      if d.src != 1 {
        continue;
      }
      let ri = self.readers.iter().position(|r| r.node == d.dst);
      for sub in &d.subs {
        match sub {
          Sub::Heartbeat { first, last, .. } => {
            ctx.count("probe.heartbeat_checked");
            // within one step several commands may be processed: the heartbeat is
            // compared with the history as it was when `last` was the highest written
            let lowest_upto = |v: &WriterView| v.history.iter().copied().find(|s| *s <= *last);
            let ok = *last >= before.last_sn
              && *last <= after.last_sn
              && [lowest_upto(before), lowest_upto(&after)]
                .iter()
                .any(|lo| *first == lo.unwrap_or(*last + 1));
            if self.focus == Focus::C04 && !ok {
              return Err(v(
                "C04/heartbeat-range-wrong",
                format!(
                  "HEARTBEAT advertises [{first},{last}] but the writer holds {:?} (highest written {}; before the step {:?}/{})",
                  after.history, after.last_sn, before.history, before.last_sn
                ),
              ));
            }
            if let Some(i) = ri {
              self.readers[i].last_hb = Some((*first, *last));
            }
          }
          Sub::Data { sn, payload, .. } => {
            if let Some(smp) = self.samples.get(sn) {
              if let (Some(o), Some(i)) = (smp.single, ri) {
                if o != i && self.focus == Focus::C04 {
                  return Err(v(
                    "C04/single-reader-sample-sent-to-another-reader",
                    format!("sample {sn} was written for reader {o} only but DATA went to reader {i}'s locator"),
                  ));
                }
              }
              if ri.is_none() && smp.single.is_some() && self.focus == Focus::C04 {
                return Err(v(
                  "C04/single-reader-sample-sent-to-another-reader",
                  format!("sample {sn} written for one reader went to host n{}", d.dst),
                ));
              }
              let got = payload.clone().unwrap_or_default();
              if self.focus == Focus::C04 && !eq_mod_padding(&got, &smp.payload) {
                return Err(v(
                  "C04/transmitted-bytes-differ",
                  format!("DATA {sn}: {} bytes on the wire, {} written", got.len(), smp.payload.len()),
                ));
              }
              if let Some(i) = ri {
                self.readers[i].got_data.insert(*sn, got);
                self.readers[i].requests.remove(sn);
              }
            } else if self.focus == Focus::C04 {
              return Err(v("C04/transmitted-unknown-sample", format!("DATA {sn} was never written")));
            }
          }
          Sub::DataFrag {
            sn,
            frag_start,
            frags_in_sub,
            frag_size,
            sample_size,
            payload,
            ..
          } => {
            if let Some(smp) = self.samples.get(sn) {
              if let (Some(o), Some(i)) = (smp.single, ri) {
                if o != i && self.focus == Focus::C04 {
                  return Err(v(
                    "C04/single-reader-sample-sent-to-another-reader",
                    format!("sample {sn} was written for reader {o} only but DATAFRAG went to reader {i}'s locator"),
                  ));
                }
              }
              // every fragment carries the right slice of the written bytes
              let fs = *frag_size as usize;
              let from = (*frag_start as usize - 1) * fs;
              let to = ((*frag_start as usize - 1 + *frags_in_sub as usize) * fs).min(smp.payload.len());
              let expect: &[u8] = if from <= to && to <= smp.payload.len() {
                &smp.payload[from..to]
              } else {
                &[]
              };
              if self.focus == Focus::C04
                && (*sample_size as usize != smp.payload.len() || !eq_mod_padding(payload, expect))
              {
                return Err(v(
                  "C04/transmitted-fragment-differs",
                  format!(
                    "DATAFRAG {sn}.{frag_start}: sample size {sample_size} (written {}), {} payload bytes, expected {}",
                    smp.payload.len(),
                    payload.len(),
                    expect.len()
                  ),
                ));
              }
              if let Some(i) = ri {
                let r = &mut self.readers[i];
                r.got_frag_meta.insert(*sn, (*frag_size, *sample_size));
                let e = r.got_frags.entry(*sn).or_default();
                e.insert(*frag_start, payload.clone());
                let n = ((smp.payload.len() + fs - 1) / fs) as u32;
                if (1..=n).all(|f| e.contains_key(&f)) {
                  r.got_data.insert(*sn, smp.payload.clone());
                  r.requests.remove(sn);
                  ctx.count("probe.request_answered_by_fragments");
                }
              }
            }
          }
          Sub::Gap { start, list, .. } => {
            if let Some(i) = ri {
              let r = &mut self.readers[i];
              for sn in *start..list.base {
                r.got_gap.insert(sn);
                r.requests.remove(&sn);
                r.gap_due.remove(&sn);
              }
              for sn in &list.members {
                r.got_gap.insert(*sn);
                r.requests.remove(sn);
                r.gap_due.remove(sn);
              }
              ctx.count("probe.gap_received");
              // a GAP must never cover a sample that is relevant for and retrievable by this reader
              if self.focus == Focus::C04 {
                for sn in (*start..list.base).chain(list.members.iter().copied()) {
                  if let Some(smp) = self.samples.get(&sn) {
                    let relevant = smp.single.map_or(true, |o| o == i);
                    let retrievable = after.history.contains(&sn) && before.history.contains(&sn);
                    let late_joiner_gap = self.volatile; // volatile: pre-match samples are GAPped legitimately
                    if relevant && retrievable && !late_joiner_gap {
                      return Err(v(
                        "C04/gap-for-retrievable-relevant-sample",
                        format!("GAP to reader {i} covers sample {sn}, which is relevant for it and still in the history"),
                      ));
                    }
                  }
                }
              }
            }
          }
          _ => {}
        }
      }
    }

    // ---- (a) a sample leaves the history only if acknowledged by all matched reliable readers
    //          or forced out by the depth limit ------------------------------------------------
    if self.focus == Focus::C04 {
      for sn in &before.history {
        if !after.history.contains(sn) {
          self.removed_ok_checked += 1;
          let unacked: Vec<usize> = (0..self.readers.len())
            .filter(|i| {
              let r = &self.readers[*i];
              r.matched && r.reliable && r.acked_before <= *sn
            })
            .collect();
          let newer = after.last_sn - *sn;
          let forced = self.limit.map_or(false, |l| newer >= l as i64);
          ctx.count("probe.sample_removed_from_history");
          if !unacked.is_empty() && !forced {
            return Err(v(
              "C04/removed-before-acknowledged",
              format!(
                "sample {sn} left the history although matched reliable reader(s) {unacked:?} have not acknowledged it and only {newer} newer samples exist (limit {:?})",
                self.limit
              ),
            ));
          }
        }
      }
      // ---- (c) requests are answered within the budget -----------------------------------------
      for (i, r) in self.readers.iter().enumerate() {
        if !r.matched {
          continue;
        }
        if let Some((sn, dl)) = r.requests.iter().find(|(_, dl)| **dl < now) {
          return Err(v(
            "C04/request-not-answered",
            format!(
              "reader {i} requested advertised sample {sn}; {} ms past the repair budget neither its bytes nor a GAP covering it were sent (history {:?})",
              (now - dl) / MS,
              after.history
            ),
          ));
        }
        if let Some((sn, dl)) = r.gap_due.iter().find(|(_, dl)| **dl < now) {
          return Err(v(
            "C04/no-gap-for-other-readers-sample",
            format!(
              "sample {sn} was written for another reader; reader {i} acknowledged below it {} ms ago and was not sent a GAP",
              (now - dl) / MS + 3000
            ),
          ));
        }
      }
    }

    // ---- C20 -------------------------------------------------------------------------------------
    if let Some(ws) = &mut self.wait {
      if ws.processed && !ws.reported {
        // model: which of the needed readers have acknowledged or been lost?
        // Safety uses the lenient reading (an ACKNACK base 0 counts as base 1),
        // promptness the strict one (raw base), so neither clause can alarm on the
        // writer's two ways of looking at a non-conformant base 0.
        let readers = &self.readers;
        ws.need.retain(|i| {
          let r = &readers[*i];
          r.matched && r.acked_before <= ws.wait_until
        });
        let cond = ws.need.is_empty();
        let cond_strict = ws.need.is_empty()
          && readers
            .iter()
            .all(|r| !(r.matched && r.reliable) || r.acked_raw > ws.wait_until || r.acked_before <= ws.wait_until);
        if cond_strict && ws.cond_true_at.is_none() {
          ws.cond_true_at = Some(now);
        }
        let done = ws.aw.completed();
        if done {
          ws.reported = true;
          ctx.count("probe.wait_completed");
          if !cond && self.focus == Focus::C20 {
            return Err(v(
              "C20/success-before-all-acknowledged",
              format!(
                "wait_for_acknowledgments reported success for sn <= {} while reader(s) {:?} matched at the call have neither acknowledged nor been lost",
                ws.wait_until, ws.need
              ),
            ));
          }
        } else if let Some(t) = ws.cond_true_at {
          // promptly: the completion is signalled by the very step that makes the condition true
          if now > t + 50 * MS && self.focus == Focus::C20 {
            return Err(v(
              "C20/no-success-although-all-acknowledged",
              format!(
                "every reliable reader matched at the call has acknowledged sn <= {} (or was lost) {} ms ago, but the wait is still pending",
                ws.wait_until,
                (now - t) / MS
              ),
            ));
          }
        }
      }
    }
    ctx.state((after.history.len() as u64) << 32 | (after.last_sn as u64) << 8 | self.readers.iter().filter(|r| r.matched).count() as u64);
    Ok(())
  }

  /// (b) right after a cache-cleaning event the history is bounded
  fn check_bound_after_cleaning(&mut self, ctx: &mut Ctx) -> Check {
    if self.focus != Focus::C04 {
      return Ok(());
    }
    let vw = self.view();
    let limit = match self.limit {
      Some(l) => l,
      None => return Ok(()),
    };
    // samples still unacknowledged by some currently matched reliable reader
    let min_acked = self
      .readers
      .iter()
      .filter(|r| r.matched && r.reliable)
      .map(|r| r.acked_before.max(1))
      .min();
    let unacked = match min_acked {
      Some(m) => vw.history.iter().filter(|s| **s >= m).count(),
      None => 0,
    };
    ctx.count("probe.bound_checked_after_cleaning");
    if vw.history.len() > limit + unacked {
      let kinds: String = self
        .readers
        .iter()
        .filter(|r| r.matched)
        .map(|r| if r.reliable { 'R' } else { 'B' })
        .collect();
      return Err(v(
        if min_acked.is_none() {
          "C04/history-unbounded-without-reliable-readers"
        } else {
          "C04/history-exceeds-limit-plus-unacknowledged"
        },
        format!(
          "after a cache-cleaning period the writer (KeepLast {limit}) still holds {} samples {:?}; matched readers [{kinds}], {unacked} of them unacknowledged by a matched reliable reader",
          vw.history.len(),
          vw.history
        ),
      ));
    }
    Ok(())
  }
}
