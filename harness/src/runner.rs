//! Batch driver: seeded search over many simulated runs on all cores,
//! determinism self-check, minimisation, replay files, known findings,
//! evidence.

use std::{
  collections::{BTreeMap, BTreeSet},
  io::Write,
  path::{Path, PathBuf},
  process::{Command, Stdio},
  time::{Duration, Instant},
};

use serde::{Deserialize, Serialize};
use serde_json::json;
use simcore::prng::mix;

use crate::{
  ctx::{RunOutput, Violation},
  iso::{self, Job, RunInput},
  props,
};

pub const VERIF_DIR: &str = "/verif";

#[derive(Clone, Debug, Serialize, Deserialize, Default)]
pub struct WorkerSummary {
  pub runs: u64,
  pub nontrivial_runs: u64,
  pub fingerprints: Vec<u64>,
  pub stats: BTreeMap<String, u64>,
  pub sim_ns: u64,
  pub steps: u64,
  pub choices: u64,
  pub violations: Vec<RunOutput>,
  pub violation_count: u64,
  pub digests: Vec<(u64, u64)>,
  pub wall_s: f64,
}

pub fn prop_tag(prop: &str) -> u64 {
  simcore::digest::fnv(prop.as_bytes())
}

pub fn seed_of(base: u64, prop: &str, index: u64) -> u64 {
  mix(&[base, prop_tag(prop), index])
}

/// `dst worker`: runs indices start, start+stride, ... < total.
pub fn worker_main(
  prop: &str,
  tier: &str,
  base_seed: u64,
  start: u64,
  stride: u64,
  total: u64,
  deadline_s: f64,
  check_first: u64,
) -> WorkerSummary {
  let t0 = Instant::now();
  let spec = props::spec(prop).expect("unknown property");
  let batch = spec.batch.max(1) as u64;
  let per_run = Duration::from_secs_f64(spec.per_run_timeout_s);
  let mut sum = WorkerSummary::default();
  let mut fps: BTreeSet<u64> = BTreeSet::new();
  let mut idx = start;
  let absorb = |sum: &mut WorkerSummary, fps: &mut BTreeSet<u64>, o: RunOutput, record_digest: bool| {
    sum.runs += 1;
    sum.sim_ns += o.sim_ns;
    sum.steps += o.steps;
    sum.choices += o.n_choices as u64;
    if o.nontrivial {
      sum.nontrivial_runs += 1;
      fps.insert(o.fingerprint);
    }
    for (k, v) in &o.stats {
      let e = sum.stats.entry(k.clone()).or_insert(0);
      if k.starts_with("max.") {
        *e = (*e).max(*v);
      } else {
        *e += *v;
      }
    }
    if record_digest {
      sum.digests.push((o.seed, o.digest));
    }
    if o.violation.is_some() {
      sum.violation_count += 1;
      if sum.violations.len() < 40 {
        sum.violations.push(o);
      }
    }
  };
  while idx < total {
    if t0.elapsed().as_secs_f64() > deadline_s {
      break;
    }
    let mut inputs = vec![];
    let mut i = idx;
    while i < total && (inputs.len() as u64) < batch {
      inputs.push(RunInput {
        seed: seed_of(base_seed, prop, i),
        choices: None,
      });
      i += stride;
    }
    let first_index_in_batch = idx;
    idx = i;
    let job = Job {
      prop: prop.to_string(),
      tier: tier.to_string(),
      inputs,
      keep_lines: false,
      watchdog_s: spec.per_run_timeout_s,
    };
    let outs = iso::run_batch_robust(&job, per_run);
    for (k, o) in outs.into_iter().enumerate() {
      let index = first_index_in_batch + (k as u64) * stride;
      absorb(&mut sum, &mut fps, o, index < check_first);
    }
  }
  sum.fingerprints = fps.into_iter().collect();
  sum.wall_s = t0.elapsed().as_secs_f64();
  sum
}

/// `dst recheck`: run the first `n` indices each alone in its own child (the
/// determinism cross-check: same seeds, other process, other batch position).
pub fn recheck_main(prop: &str, tier: &str, base_seed: u64, n: u64) -> WorkerSummary {
  let spec = props::spec(prop).expect("unknown property");
  let per_run = Duration::from_secs_f64(spec.per_run_timeout_s);
  let mut sum = WorkerSummary::default();
  // reversed order on purpose
  for i in (0..n).rev() {
    let job = Job {
      prop: prop.to_string(),
      tier: tier.to_string(),
      inputs: vec![RunInput {
        seed: seed_of(base_seed, prop, i),
        choices: None,
      }],
      keep_lines: false,
      watchdog_s: spec.per_run_timeout_s,
    };
    for o in iso::run_batch_robust(&job, per_run) {
      sum.runs += 1;
      sum.digests.push((o.seed, o.digest));
    }
  }
  sum
}

#[derive(Clone, Debug, Serialize, Deserialize)]
pub struct ReplayFile {
  pub property: String,
  pub tier: String,
  pub seed: u64,
  pub class: String,
  pub detail: String,
  pub choices: Vec<u64>,
  pub digest: u64,
  pub original_choices_len: usize,
  pub trace: Vec<String>,
}

fn sanitize(s: &str) -> String {
  s.chars()
    .map(|c| if c.is_ascii_alphanumeric() { c } else { '_' })
    .collect::<String>()
    .chars()
    .take(60)
    .collect()
}

fn eval(prop: &str, tier: &str, seed: u64, choices: &[u64], keep: bool, per_run: Duration) -> RunOutput {
  let job = Job {
    prop: prop.to_string(),
    tier: tier.to_string(),
    inputs: vec![RunInput {
      seed,
      choices: Some(choices.to_vec()),
    }],
    keep_lines: keep,
    watchdog_s: per_run.as_secs_f64(),
  };
  iso::run_batch_robust(&job, per_run).remove(0)
}

fn trim_zeros(v: &mut Vec<u64>) {
  while v.last() == Some(&0) {
    v.pop();
  }
}

/// Delta-debugging over the decision list while the same violation class persists.
pub fn shrink(
  prop: &str,
  tier: &str,
  seed: u64,
  class: &str,
  start: Vec<u64>,
  budget: Duration,
) -> (Vec<u64>, usize) {
  let spec = props::spec(prop).expect("unknown property");
  let per_run = Duration::from_secs_f64(spec.per_run_timeout_s);
  let t0 = Instant::now();
  let mut best = start;
  trim_zeros(&mut best);
  let mut evals = 0usize;
  let mut try_candidate = |cand: &Vec<u64>, best: &mut Vec<u64>, evals: &mut usize| -> bool {
    if t0.elapsed() > budget {
      return false;
    }
    *evals += 1;
    let o = eval(prop, tier, seed, cand, false, per_run);
    if o.violation.as_ref().map(|v| v.class.as_str()) == Some(class) {
      let mut rec = o.choices.unwrap_or_else(|| cand.clone());
      trim_zeros(&mut rec);
      // the recorded list is the canonical form of the candidate
      if rec.len() <= cand.len() {
        *best = rec;
      } else {
        *best = cand.clone();
      }
      true
    } else {
      false
    }
  };
  loop {
    let before = best.clone();
    // 1. shortest failing prefix (binary search, then linear polish)
    let mut lo = 0usize;
    let mut hi = best.len();
    while lo < hi && t0.elapsed() < budget {
      let mid = (lo + hi) / 2;
      let cand: Vec<u64> = best[..mid].to_vec();
      let mut b2 = best.clone();
      if try_candidate(&cand, &mut b2, &mut evals) {
        best = b2;
        hi = best.len().min(mid);
      } else {
        lo = mid + 1;
      }
    }
    // 2. delete chunks
    let mut size = (best.len() / 2).max(1);
    while size >= 1 && t0.elapsed() < budget {
      let mut i = 0usize;
      while i < best.len() && t0.elapsed() < budget {
        let end = (i + size).min(best.len());
        let mut cand = best.clone();
        cand.drain(i..end);
        let mut b2 = best.clone();
        if try_candidate(&cand, &mut b2, &mut evals) {
          best = b2;
        } else {
          i += size;
        }
      }
      if size == 1 {
        break;
      }
      size /= 2;
    }
    // 3. zero, then reduce single values
    let mut i = 0usize;
    while i < best.len() && t0.elapsed() < budget {
      if best[i] != 0 {
        let mut cand = best.clone();
        cand[i] = 0;
        let mut b2 = best.clone();
        if try_candidate(&cand, &mut b2, &mut evals) {
          best = b2;
        } else if best[i] > 1 {
          let mut cand = best.clone();
          cand[i] = best[i] / 2;
          let mut b2 = best.clone();
          if try_candidate(&cand, &mut b2, &mut evals) {
            best = b2;
            continue;
          } else {
            let mut cand = best.clone();
            cand[i] = best[i] - 1;
            let mut b2 = best.clone();
            if try_candidate(&cand, &mut b2, &mut evals) {
              best = b2;
              continue;
            }
          }
        }
      }
      i += 1;
    }
    if best == before || t0.elapsed() > budget {
      break;
    }
  }
  (best, evals)
}

#[derive(Clone, Debug, Serialize, Deserialize)]
pub struct KnownFinding {
  pub property: String,
  pub class: String,
  /// "known" or "fixed"
  pub status: String,
  #[serde(default)]
  pub commit: String,
  pub what: String,
}

pub fn load_known_findings() -> Vec<KnownFinding> {
  let p = Path::new(VERIF_DIR).join("known_findings.jsonl");
  match std::fs::read_to_string(&p) {
    Ok(s) => s
      .lines()
      .filter(|l| !l.trim().is_empty() && !l.trim_start().starts_with('#'))
      .filter_map(|l| serde_json::from_str::<KnownFinding>(l).ok())
      .collect(),
    Err(_) => vec![],
  }
}

pub struct RunArgs {
  pub prop: String,
  pub tier: String,
  pub base_seed: u64,
  pub runs: Option<u64>,
  pub secs: Option<f64>,
  pub jobs: usize,
  pub write_evidence: bool,
}

fn self_exe() -> PathBuf {
  std::env::current_exe().expect("current_exe")
}

/// `dst run`: the check itself.  Returns the process exit code.
pub fn run_main(a: &RunArgs) -> i32 {
  let t0 = Instant::now();
  let spec = match props::spec(&a.prop) {
    Some(s) => s,
    None => {
      eprintln!("unknown property {}", a.prop);
      return 2;
    }
  };
  let total = a.runs.unwrap_or(if a.tier == "thorough" {
    spec.thorough_runs
  } else {
    spec.quick_runs
  });
  let deadline_s = a.secs.unwrap_or(if a.tier == "thorough" {
    spec.thorough_secs
  } else {
    spec.quick_secs
  });
  let jobs = a.jobs.max(1) as u64;
  let check_first = if a.tier == "thorough" { 64 } else { 24 }.min(total);
  println!(
    "[dst] property={} tier={} seed={} runs={} jobs={} engine={}",
    a.prop, a.tier, a.base_seed, total, jobs, spec.engine
  );

  // --- workers ---------------------------------------------------------------
  let mut children = vec![];
  for j in 0..jobs {
    let c = Command::new(self_exe())
      .args([
        "worker",
        &a.prop,
        "--tier",
        &a.tier,
        "--seed",
        &a.base_seed.to_string(),
        "--start",
        &j.to_string(),
        "--stride",
        &jobs.to_string(),
        "--total",
        &total.to_string(),
        "--deadline",
        &deadline_s.to_string(),
        "--check-first",
        &check_first.to_string(),
      ])
      .stdout(Stdio::piped())
      .stderr(Stdio::inherit())
      .spawn()
      .expect("spawn worker");
    children.push(c);
  }
  let recheck = Command::new(self_exe())
    .args([
      "recheck",
      &a.prop,
      "--tier",
      &a.tier,
      "--seed",
      &a.base_seed.to_string(),
      "--n",
      &check_first.to_string(),
    ])
    .stdout(Stdio::piped())
    .stderr(Stdio::inherit())
    .spawn()
    .expect("spawn recheck");

  let mut sums: Vec<WorkerSummary> = vec![];
  let mut harness_error: Option<String> = None;
  for c in children {
    let out = c.wait_with_output().expect("worker output");
    match serde_json::from_slice::<WorkerSummary>(&out.stdout) {
      Ok(s) => sums.push(s),
      Err(e) => {
        harness_error = Some(format!(
          "worker produced no summary ({e}); status {:?}",
          out.status
        ));
      }
    }
  }
  let rc_out = recheck.wait_with_output().expect("recheck output");
  let rc_sum: Option<WorkerSummary> = serde_json::from_slice(&rc_out.stdout).ok();

  // --- merge -----------------------------------------------------------------
  let mut runs = 0u64;
  let mut nontrivial_runs = 0u64;
  let mut fps: BTreeSet<u64> = BTreeSet::new();
  let mut stats: BTreeMap<String, u64> = BTreeMap::new();
  let mut sim_ns = 0u64;
  let mut steps = 0u64;
  let mut choices = 0u64;
  let mut violations: Vec<RunOutput> = vec![];
  let mut violation_count = 0u64;
  let mut digests: BTreeMap<u64, u64> = BTreeMap::new();
  let mut worker_wall = 0f64;
  for s in &sums {
    runs += s.runs;
    nontrivial_runs += s.nontrivial_runs;
    fps.extend(s.fingerprints.iter().copied());
    for (k, v) in &s.stats {
      let e = stats.entry(k.clone()).or_insert(0);
      if k.starts_with("max.") {
        *e = (*e).max(*v);
      } else {
        *e += *v;
      }
    }
    sim_ns += s.sim_ns;
    steps += s.steps;
    choices += s.choices;
    violation_count += s.violation_count;
    violations.extend(s.violations.iter().cloned());
    for (seed, d) in &s.digests {
      digests.insert(*seed, *d);
    }
    worker_wall = worker_wall.max(s.wall_s);
  }

  // --- determinism cross-check -------------------------------------------------
  let mut determinism_checked = 0u64;
  match &rc_sum {
    None => harness_error = Some("determinism re-check produced no summary".into()),
    Some(rc) => {
      for (seed, d) in &rc.digests {
        if let Some(d0) = digests.get(seed) {
          determinism_checked += 1;
          if d0 != d {
            harness_error = Some(format!(
              "NONDETERMINISM: seed {seed} gave trace digest {d0:#x} in the batch and {d:#x} alone"
            ));
          }
        }
      }
    }
  }
  if determinism_checked == 0 && harness_error.is_none() && runs > 0 {
    harness_error = Some("determinism re-check compared nothing".into());
  }

  // --- violations: classify, minimise, replay files ------------------------------
  violations.sort_by_key(|o| (o.n_choices, o.seed));
  let known = load_known_findings();
  let mut by_class: BTreeMap<String, Vec<RunOutput>> = BTreeMap::new();
  for v in violations {
    let c = v.violation.as_ref().unwrap().class.clone();
    by_class.entry(c).or_default().push(v);
  }
  let mut exit = 0;
  let mut reported: Vec<serde_json::Value> = vec![];
  let replay_dir = Path::new(VERIF_DIR).join("replays");
  let _ = std::fs::create_dir_all(&replay_dir);
  let per_run = Duration::from_secs_f64(spec.per_run_timeout_s);
  let mut known_lines: BTreeSet<String> = BTreeSet::new();
  for (class, outs) in by_class.iter().take(6) {
    if class.starts_with("HARNESS-ERROR") {
      harness_error = Some(format!(
        "{class}: {}",
        outs[0].violation.as_ref().unwrap().detail
      ));
      continue;
    }
    let o = &outs[0];
    let start_choices = o.choices.clone().unwrap_or_default();
    let orig_len = start_choices.len();
    let budget = Duration::from_secs(if a.tier == "thorough" { 120 } else { 45 });
    let (min_choices, evals) = if start_choices.is_empty() {
      (start_choices.clone(), 0)
    } else {
      shrink(&a.prop, &a.tier, o.seed, class, start_choices.clone(), budget)
    };
    // final replay in a fresh process, with the trace
    let fin = eval(&a.prop, &a.tier, o.seed, &min_choices, true, per_run);
    let (fclass, fdetail) = match &fin.violation {
      Some(v) => (v.class.clone(), v.detail.clone()),
      None => (String::new(), String::new()),
    };
    if &fclass != class {
      // minimised list does not reproduce on its own: fall back to the original
      let fin2 = eval(&a.prop, &a.tier, o.seed, &start_choices, true, per_run);
      if fin2.violation.as_ref().map(|v| v.class.clone()).as_deref() != Some(class.as_str()) {
        harness_error = Some(format!(
          "violation class {class} (seed {}) does not replay from its recorded decision list",
          o.seed
        ));
        continue;
      }
    }
    let rf = ReplayFile {
      property: a.prop.clone(),
      tier: a.tier.clone(),
      seed: o.seed,
      class: class.clone(),
      detail: if fdetail.is_empty() {
        o.violation.as_ref().unwrap().detail.clone()
      } else {
        fdetail
      },
      choices: if &fclass == class {
        min_choices.clone()
      } else {
        start_choices.clone()
      },
      digest: fin.digest,
      original_choices_len: orig_len,
      trace: fin.lines.clone().unwrap_or_default().into_iter().rev().take(400).rev().collect(),
    };
    let path = replay_dir.join(format!("{}-{}-{}.json", a.prop, sanitize(class), o.seed));
    std::fs::write(&path, serde_json::to_string_pretty(&rf).unwrap()).ok();
    let kf = known
      .iter()
      .find(|k| k.property == a.prop && k.class == *class && k.status == "known");
    match kf {
      Some(k) => {
        known_lines.insert(format!(
          "KNOWN-FINDING: property={} class={} {}",
          a.prop, class, k.what
        ));
      }
      None => {
        println!("VIOLATION property={} replay={}", a.prop, path.display());
        println!(
          "  class={} seed={} occurrences={} decisions {} -> {} ({} shrink evaluations)",
          class,
          o.seed,
          outs.len(),
          orig_len,
          rf.choices.len(),
          evals
        );
        println!("  {}", rf.detail);
        exit = 1;
      }
    }
    reported.push(json!({
      "class": class, "seed": o.seed, "occurrences": outs.len(),
      "replay": path.display().to_string(), "known": kf.is_some(),
      "decisions_before": orig_len, "decisions_after": rf.choices.len(),
    }));
  }
  for l in &known_lines {
    println!("{l}");
  }

  // --- sample traces for the evidence -----------------------------------------
  let mut samples: Vec<serde_json::Value> = vec![];
  for i in 0..2u64.min(total) {
    let seed = seed_of(a.base_seed, &a.prop, i);
    let job = Job {
      prop: a.prop.clone(),
      tier: a.tier.clone(),
      inputs: vec![RunInput {
        seed,
        choices: None,
      }],
      keep_lines: true,
      watchdog_s: spec.per_run_timeout_s,
    };
    if let Some(o) = iso::run_batch_robust(&job, per_run).into_iter().next() {
      let lines = o.lines.unwrap_or_default();
      let n = lines.len();
      let shown: Vec<String> = lines.into_iter().take(80).collect();
      samples.push(json!({
        "seed": seed, "steps": o.steps, "decisions": o.n_choices,
        "simulated_ms": o.sim_ns / 1_000_000, "trace_lines_total": n,
        "trace_head": shown,
      }));
    }
  }

  let wall = t0.elapsed().as_secs_f64();
  let runs_per_hour = if worker_wall > 0.0 {
    runs as f64 / worker_wall * 3600.0
  } else {
    0.0
  };
  println!(
    "[dst] {} runs ({} non-trivial, {} distinct state fingerprints), {:.1} simulated s, {:.0} runs/h, {} violating runs, determinism cross-checked on {} seeds, wall {:.1}s",
    runs,
    nontrivial_runs,
    fps.len(),
    sim_ns as f64 / 1e9,
    runs_per_hour,
    violation_count,
    determinism_checked,
    wall
  );
  let mut faults: BTreeMap<String, u64> = BTreeMap::new();
  let mut probes: BTreeMap<String, u64> = BTreeMap::new();
  let mut other: BTreeMap<String, u64> = BTreeMap::new();
  for (k, v) in &stats {
    if let Some(r) = k.strip_prefix("fault.") {
      faults.insert(r.to_string(), *v);
    } else if let Some(r) = k.strip_prefix("probe.") {
      probes.insert(r.to_string(), *v);
    } else if k.starts_with("max.") {
      probes.insert(k.clone(), *v);
    } else {
      other.insert(k.clone(), *v);
    }
  }
  println!("[dst] faults fired: {faults:?}");
  println!("[dst] probes: {probes:?}");

  if let Some(e) = &harness_error {
    println!("HARNESS-ERROR property={} {}", a.prop, e);
  }

  if a.write_evidence {
    let ev = json!({
      "property_id": a.prop,
      "tier": if a.tier == "thorough" { "thorough" } else { "quick" },
      "seed": a.base_seed,
      "level": spec.level,
      "coverage": {
        "evaluations": runs,
        "distinct_nontrivial": fps.len(),
        "rule": spec.rule,
        "samples": samples,
        "exhaustive": false,
        "engine": spec.engine,
        "nontrivial_runs": nontrivial_runs,
        "simulated_seconds": sim_ns as f64 / 1e9,
        "simulated_steps": steps,
        "decisions_drawn": choices,
        "runs_per_hour": runs_per_hour,
        "seeds": format!("mix(base={}, fnv(\"{}\"), i) for i in 0..{}", a.base_seed, a.prop, total),
        "faults_fired": faults,
        "probes_hit": probes,
        "counters": other,
        "determinism_seeds_cross_checked": determinism_checked,
        "violating_runs": violation_count,
        "violation_classes": reported,
        "real_components": spec.real,
        "stubbed_components": spec.stub,
      },
      "assumptions": spec.assumptions,
      "wall_s": wall,
      "violations": if exit == 1 { violation_count as i64 } else { 0 },
    });
    let dir = Path::new(VERIF_DIR).join("evidence");
    let _ = std::fs::create_dir_all(&dir);
    let tmp = dir.join(format!("{}.json.tmp", a.prop));
    let fin = dir.join(format!("{}.json", a.prop));
    if runs >= 1 && fps.len() >= 2 && harness_error.is_none() {
      let mut f = std::fs::File::create(&tmp).expect("evidence tmp");
      f.write_all(serde_json::to_string_pretty(&ev).unwrap().as_bytes())
        .unwrap();
      drop(f);
      std::fs::rename(&tmp, &fin).expect("evidence rename");
    } else if harness_error.is_none() {
      harness_error = Some(format!(
        "coverage too thin for an evidence file: runs={runs} distinct_nontrivial={}",
        fps.len()
      ));
      println!("HARNESS-ERROR property={} {}", a.prop, harness_error.as_ref().unwrap());
    }
  }

  // a violation that was reported with its replay stands even if some other run of the batch could
  // not be judged
  if harness_error.is_some() && exit != 1 {
    return 2;
  }
  exit
}

/// `dst replay FILE`
pub fn replay_main(path: &str, verbose: bool) -> i32 {
  let s = match std::fs::read_to_string(path) {
    Ok(s) => s,
    Err(e) => {
      eprintln!("cannot read {path}: {e}");
      return 2;
    }
  };
  let rf: ReplayFile = match serde_json::from_str(&s) {
    Ok(r) => r,
    Err(e) => {
      eprintln!("bad replay file: {e}");
      return 2;
    }
  };
  let spec = props::spec(&rf.property).expect("unknown property");
  let per_run = Duration::from_secs_f64(spec.per_run_timeout_s);
  let o = eval(&rf.property, &rf.tier, rf.seed, &rf.choices, true, per_run);
  if verbose {
    for l in o.lines.clone().unwrap_or_default() {
      println!("{l}");
    }
  }
  match &o.violation {
    Some(v) => {
      println!("replayed: class={} detail={}", v.class, v.detail);
      if v.class == rf.class {
        if o.digest != rf.digest && rf.digest != 0 {
          println!(
            "HARNESS-ERROR property={} replay digest {:#x} differs from recorded {:#x}",
            rf.property, o.digest, rf.digest
          );
          return 2;
        }
        println!("VIOLATION property={} replay={}", rf.property, path);
        1
      } else {
        println!(
          "replay produced a different violation class than recorded ({})",
          rf.class
        );
        1
      }
    }
    None => {
      println!("replay: no violation (recorded class {})", rf.class);
      0
    }
  }
}

pub fn violation_brief(v: &Violation) -> String {
  format!("{}: {}", v.class, v.detail)
}
