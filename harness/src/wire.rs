//! Independent RTPS 2.x wire codec (encoder for scripted peers, decoder for
//! everything real nodes emit).  Written from the specification, it shares no
//! code with RustDDS, so oracles that use it are not circular.

#![allow(dead_code)]

pub type Guid = [u8; 16];
pub type Prefix = [u8; 12];
pub type Eid = [u8; 4];

pub const EID_UNKNOWN: Eid = [0, 0, 0, 0];

pub fn guid(prefix: Prefix, eid: Eid) -> Guid {
  let mut g = [0u8; 16];
  g[..12].copy_from_slice(&prefix);
  g[12..].copy_from_slice(&eid);
  g
}
pub fn prefix_of(g: &Guid) -> Prefix {
  let mut p = [0u8; 12];
  p.copy_from_slice(&g[..12]);
  p
}
pub fn eid_of(g: &Guid) -> Eid {
  let mut e = [0u8; 4];
  e.copy_from_slice(&g[12..]);
  e
}

pub const SM_PAD: u8 = 0x01;
pub const SM_ACKNACK: u8 = 0x06;
pub const SM_HEARTBEAT: u8 = 0x07;
pub const SM_GAP: u8 = 0x08;
pub const SM_INFO_TS: u8 = 0x09;
pub const SM_INFO_SRC: u8 = 0x0c;
pub const SM_INFO_REPLY_IP4: u8 = 0x0d;
pub const SM_INFO_DST: u8 = 0x0e;
pub const SM_INFO_REPLY: u8 = 0x0f;
pub const SM_NACK_FRAG: u8 = 0x12;
pub const SM_HEARTBEAT_FRAG: u8 = 0x13;
pub const SM_DATA: u8 = 0x15;
pub const SM_DATA_FRAG: u8 = 0x16;

pub const PID_SENTINEL: u16 = 0x0001;
pub const PID_KEY_HASH: u16 = 0x0070;
pub const PID_STATUS_INFO: u16 = 0x0071;

#[derive(Clone, Debug, PartialEq, Eq)]
pub struct SnSet {
  pub base: i64,
  pub num_bits: u32,
  pub members: Vec<i64>,
}

impl SnSet {
  pub fn empty(base: i64) -> Self {
    SnSet {
      base,
      num_bits: 0,
      members: vec![],
    }
  }
  pub fn from_members(base: i64, members: &[i64]) -> Self {
    let max = members.iter().copied().max();
    let num_bits = match max {
      Some(m) if m >= base => ((m - base) + 1).min(256) as u32,
      _ => 0,
    };
    SnSet {
      base,
      num_bits,
      members: members
        .iter()
        .copied()
        .filter(|m| *m >= base && *m < base + 256)
        .collect(),
    }
  }
}

#[derive(Clone, Debug, PartialEq, Eq)]
pub struct FnSet {
  pub base: u32,
  pub num_bits: u32,
  pub members: Vec<u32>,
}

#[derive(Clone, Debug, PartialEq, Eq)]
pub struct Param {
  pub pid: u16,
  pub value: Vec<u8>,
}

#[derive(Clone, Debug, PartialEq, Eq)]
pub enum Sub {
  InfoTs {
    /// None = invalidate
    ticks: Option<u64>,
  },
  InfoDst {
    prefix: Prefix,
  },
  InfoSrc {
    prefix: Prefix,
  },
  Data {
    reader: Eid,
    writer: Eid,
    sn: i64,
    inline_qos: Option<Vec<Param>>,
    /// D flag
    has_data: bool,
    /// K flag
    has_key: bool,
    /// serialized payload including its 4-byte representation header
    payload: Option<Vec<u8>>,
  },
  DataFrag {
    reader: Eid,
    writer: Eid,
    sn: i64,
    frag_start: u32,
    frags_in_sub: u16,
    frag_size: u16,
    sample_size: u32,
    inline_qos: Option<Vec<Param>>,
    has_key: bool,
    payload: Vec<u8>,
  },
  Heartbeat {
    reader: Eid,
    writer: Eid,
    first: i64,
    last: i64,
    count: i32,
    final_flag: bool,
    liveliness: bool,
  },
  Gap {
    reader: Eid,
    writer: Eid,
    start: i64,
    list: SnSet,
  },
  AckNack {
    reader: Eid,
    writer: Eid,
    state: SnSet,
    count: i32,
    final_flag: bool,
  },
  NackFrag {
    reader: Eid,
    writer: Eid,
    sn: i64,
    state: FnSet,
    count: i32,
  },
  HeartbeatFrag {
    reader: Eid,
    writer: Eid,
    sn: i64,
    last_frag: u32,
    count: i32,
  },
  Other {
    id: u8,
    flags: u8,
    body: Vec<u8>,
  },
}

#[derive(Clone, Debug, PartialEq, Eq)]
pub struct Msg {
  pub version: (u8, u8),
  pub vendor: [u8; 2],
  pub prefix: Prefix,
  pub subs: Vec<Sub>,
}

// ------------------------------------------------------------------------
// encoding
// ------------------------------------------------------------------------

pub struct Enc {
  pub buf: Vec<u8>,
  pub be: bool,
}

impl Enc {
  pub fn new(be: bool) -> Self {
    Enc {
      buf: Vec::with_capacity(256),
      be,
    }
  }
  pub fn u8(&mut self, v: u8) {
    self.buf.push(v);
  }
  pub fn u16(&mut self, v: u16) {
    if self.be {
      self.buf.extend_from_slice(&v.to_be_bytes());
    } else {
      self.buf.extend_from_slice(&v.to_le_bytes());
    }
  }
  pub fn u32(&mut self, v: u32) {
    if self.be {
      self.buf.extend_from_slice(&v.to_be_bytes());
    } else {
      self.buf.extend_from_slice(&v.to_le_bytes());
    }
  }
  pub fn i32(&mut self, v: i32) {
    self.u32(v as u32);
  }
  pub fn sn(&mut self, v: i64) {
    self.i32((v >> 32) as i32);
    self.u32(v as u32);
  }
  pub fn bytes(&mut self, b: &[u8]) {
    self.buf.extend_from_slice(b);
  }
  pub fn snset(&mut self, s: &SnSet) {
    self.sn(s.base);
    self.u32(s.num_bits);
    let words = ((s.num_bits + 31) / 32) as usize;
    let mut w = vec![0u32; words];
    for m in &s.members {
      let off = m.wrapping_sub(s.base);
      if off >= 0 && (off as u64) < s.num_bits as u64 {
        w[(off / 32) as usize] |= 1u32 << (31 - (off % 32));
      }
    }
    for x in w {
      self.u32(x);
    }
  }
  pub fn fnset(&mut self, s: &FnSet) {
    self.u32(s.base);
    self.u32(s.num_bits);
    let words = ((s.num_bits + 31) / 32) as usize;
    let mut w = vec![0u32; words];
    for m in &s.members {
      if *m >= s.base && *m - s.base < s.num_bits {
        let off = m - s.base;
        w[(off / 32) as usize] |= 1u32 << (31 - (off % 32));
      }
    }
    for x in w {
      self.u32(x);
    }
  }
  pub fn params(&mut self, ps: &[Param]) {
    for p in ps {
      let padded = (p.value.len() + 3) & !3;
      self.u16(p.pid);
      self.u16(padded as u16);
      self.bytes(&p.value);
      for _ in p.value.len()..padded {
        self.u8(0);
      }
    }
    self.u16(PID_SENTINEL);
    self.u16(0);
  }
}

pub fn encode_sub(s: &Sub, be: bool, last: bool) -> Vec<u8> {
  let e_flag = if be { 0u8 } else { 1u8 };
  let mut body = Enc::new(be);
  let (id, mut flags) = match s {
    Sub::InfoTs { ticks } => {
      let mut f = 0u8;
      match ticks {
        Some(t) => {
          body.u32((*t >> 32) as u32);
          body.u32(*t as u32);
        }
        None => f |= 2,
      }
      (SM_INFO_TS, f)
    }
    Sub::InfoDst { prefix } => {
      body.bytes(prefix);
      (SM_INFO_DST, 0)
    }
    Sub::InfoSrc { prefix } => {
      body.u32(0);
      body.u8(2);
      body.u8(4);
      body.u8(1);
      body.u8(0x12);
      body.bytes(prefix);
      (SM_INFO_SRC, 0)
    }
    Sub::Data {
      reader,
      writer,
      sn,
      inline_qos,
      has_data,
      has_key,
      payload,
    } => {
      let mut f = 0u8;
      body.u16(0);
      body.u16(16);
      body.bytes(reader);
      body.bytes(writer);
      body.sn(*sn);
      if let Some(q) = inline_qos {
        f |= 2;
        body.params(q);
      }
      if *has_data {
        f |= 4;
      }
      if *has_key {
        f |= 8;
      }
      if let Some(p) = payload {
        body.bytes(p);
      }
      (SM_DATA, f)
    }
    Sub::DataFrag {
      reader,
      writer,
      sn,
      frag_start,
      frags_in_sub,
      frag_size,
      sample_size,
      inline_qos,
      has_key,
      payload,
    } => {
      let mut f = 0u8;
      body.u16(0);
      body.u16(28);
      body.bytes(reader);
      body.bytes(writer);
      body.sn(*sn);
      body.u32(*frag_start);
      body.u16(*frags_in_sub);
      body.u16(*frag_size);
      body.u32(*sample_size);
      if let Some(q) = inline_qos {
        f |= 2;
        body.params(q);
      }
      if *has_key {
        f |= 4;
      }
      body.bytes(payload);
      (SM_DATA_FRAG, f)
    }
    Sub::Heartbeat {
      reader,
      writer,
      first,
      last,
      count,
      final_flag,
      liveliness,
    } => {
      body.bytes(reader);
      body.bytes(writer);
      body.sn(*first);
      body.sn(*last);
      body.i32(*count);
      let mut f = 0u8;
      if *final_flag {
        f |= 2;
      }
      if *liveliness {
        f |= 4;
      }
      (SM_HEARTBEAT, f)
    }
    Sub::Gap {
      reader,
      writer,
      start,
      list,
    } => {
      body.bytes(reader);
      body.bytes(writer);
      body.sn(*start);
      body.snset(list);
      (SM_GAP, 0)
    }
    Sub::AckNack {
      reader,
      writer,
      state,
      count,
      final_flag,
    } => {
      body.bytes(reader);
      body.bytes(writer);
      body.snset(state);
      body.i32(*count);
      (SM_ACKNACK, if *final_flag { 2 } else { 0 })
    }
    Sub::NackFrag {
      reader,
      writer,
      sn,
      state,
      count,
    } => {
      body.bytes(reader);
      body.bytes(writer);
      body.sn(*sn);
      body.fnset(state);
      body.i32(*count);
      (SM_NACK_FRAG, 0)
    }
    Sub::HeartbeatFrag {
      reader,
      writer,
      sn,
      last_frag,
      count,
    } => {
      body.bytes(reader);
      body.bytes(writer);
      body.sn(*sn);
      body.u32(*last_frag);
      body.i32(*count);
      (SM_HEARTBEAT_FRAG, 0)
    }
    Sub::Other { id, flags, body: b } => {
      body.bytes(b);
      (*id, *flags & !1)
    }
  };
  flags |= e_flag;
  // pad body to 4 (RTPS 9.4.1: submessages start 32-bit aligned)
  while body.buf.len() % 4 != 0 {
    body.u8(0);
  }
  let _ = last;
  let mut out = Enc::new(be);
  out.u8(id);
  out.u8(flags);
  out.u16(body.buf.len() as u16);
  out.bytes(&body.buf);
  out.buf
}

pub fn encode_header(prefix: &Prefix) -> Vec<u8> {
  let mut v = Vec::with_capacity(20);
  v.extend_from_slice(b"RTPS");
  v.extend_from_slice(&[2, 4]);
  v.extend_from_slice(&[0x01, 0x7f]); // an unassigned vendor id: "another vendor"
  v.extend_from_slice(prefix);
  v
}

pub fn encode_msg(prefix: &Prefix, subs: &[Sub], be: bool) -> Vec<u8> {
  let mut v = encode_header(prefix);
  for (i, s) in subs.iter().enumerate() {
    v.extend_from_slice(&encode_sub(s, be, i + 1 == subs.len()));
  }
  v
}

// ------------------------------------------------------------------------
// decoding
// ------------------------------------------------------------------------

pub struct Dec<'a> {
  b: &'a [u8],
  pos: usize,
  be: bool,
}

type R<T> = Result<T, String>;

impl<'a> Dec<'a> {
  pub fn new(b: &'a [u8], be: bool) -> Self {
    Dec { b, pos: 0, be }
  }
  fn need(&self, n: usize) -> R<()> {
    if self.pos + n > self.b.len() {
      Err(format!(
        "truncated: need {} at {} of {}",
        n,
        self.pos,
        self.b.len()
      ))
    } else {
      Ok(())
    }
  }
  pub fn left(&self) -> usize {
    self.b.len() - self.pos
  }
  pub fn u8(&mut self) -> R<u8> {
    self.need(1)?;
    let v = self.b[self.pos];
    self.pos += 1;
    Ok(v)
  }
  pub fn u16(&mut self) -> R<u16> {
    self.need(2)?;
    let a = [self.b[self.pos], self.b[self.pos + 1]];
    self.pos += 2;
    Ok(if self.be {
      u16::from_be_bytes(a)
    } else {
      u16::from_le_bytes(a)
    })
  }
  pub fn u32(&mut self) -> R<u32> {
    self.need(4)?;
    let mut a = [0u8; 4];
    a.copy_from_slice(&self.b[self.pos..self.pos + 4]);
    self.pos += 4;
    Ok(if self.be {
      u32::from_be_bytes(a)
    } else {
      u32::from_le_bytes(a)
    })
  }
  pub fn i32(&mut self) -> R<i32> {
    Ok(self.u32()? as i32)
  }
  pub fn sn(&mut self) -> R<i64> {
    let hi = self.i32()? as i64;
    let lo = self.u32()? as i64;
    Ok((hi << 32) | lo)
  }
  pub fn take(&mut self, n: usize) -> R<&'a [u8]> {
    self.need(n)?;
    let s = &self.b[self.pos..self.pos + n];
    self.pos += n;
    Ok(s)
  }
  pub fn eid(&mut self) -> R<Eid> {
    let s = self.take(4)?;
    Ok([s[0], s[1], s[2], s[3]])
  }
  pub fn snset(&mut self) -> R<SnSet> {
    let base = self.sn()?;
    let num_bits = self.u32()?;
    if num_bits > 256 {
      return Err(format!("SequenceNumberSet numBits {num_bits} > 256"));
    }
    let words = ((num_bits + 31) / 32) as usize;
    let mut members = vec![];
    for w in 0..words {
      let x = self.u32()?;
      for bit in 0..32u32 {
        let off = (w as u32) * 32 + bit;
        if off < num_bits && (x & (1u32 << (31 - bit))) != 0 {
          members.push(base + off as i64);
        }
      }
    }
    Ok(SnSet {
      base,
      num_bits,
      members,
    })
  }
  pub fn fnset(&mut self) -> R<FnSet> {
    let base = self.u32()?;
    let num_bits = self.u32()?;
    if num_bits > 256 {
      return Err(format!("FragmentNumberSet numBits {num_bits} > 256"));
    }
    let words = ((num_bits + 31) / 32) as usize;
    let mut members = vec![];
    for w in 0..words {
      let x = self.u32()?;
      for bit in 0..32u32 {
        let off = (w as u32) * 32 + bit;
        if off < num_bits && (x & (1u32 << (31 - bit))) != 0 {
          members.push(base + off);
        }
      }
    }
    Ok(FnSet {
      base,
      num_bits,
      members,
    })
  }
  pub fn params(&mut self) -> R<Vec<Param>> {
    let mut v = vec![];
    loop {
      let pid = self.u16()?;
      let len = self.u16()? as usize;
      if pid == PID_SENTINEL {
        break;
      }
      if len % 4 != 0 {
        return Err(format!("parameter {pid:#x} length {len} not 4-aligned"));
      }
      let val = self.take(len)?.to_vec();
      v.push(Param { pid, value: val });
    }
    Ok(v)
  }
}

/// Result of the independent framing walk of one datagram.
#[derive(Clone, Debug)]
pub struct Framing {
  pub id: u8,
  pub flags: u8,
  pub offset: usize,
  pub declared_len: usize,
  pub body_len: usize,
  pub last: bool,
}

pub fn decode_msg(b: &[u8]) -> R<(Msg, Vec<Framing>)> {
  if b.len() < 20 {
    return Err("short header".into());
  }
  if &b[0..4] != b"RTPS" {
    return Err("bad magic".into());
  }
  let mut prefix = [0u8; 12];
  prefix.copy_from_slice(&b[8..20]);
  let mut msg = Msg {
    version: (b[4], b[5]),
    vendor: [b[6], b[7]],
    prefix,
    subs: vec![],
  };
  let mut framing = vec![];
  let mut pos = 20usize;
  while pos < b.len() {
    if pos + 4 > b.len() {
      return Err(format!("trailing {} bytes, no room for a submessage header", b.len() - pos));
    }
    if pos % 4 != 0 {
      return Err(format!("submessage at unaligned offset {pos}"));
    }
    let id = b[pos];
    let flags = b[pos + 1];
    let be = flags & 1 == 0;
    let declared = if be {
      u16::from_be_bytes([b[pos + 2], b[pos + 3]])
    } else {
      u16::from_le_bytes([b[pos + 2], b[pos + 3]])
    } as usize;
    let body_start = pos + 4;
    // octetsToNextHeader == 0 is only legal for the last submessage (extends to
    // the end of the message), except for PAD and INFO_TS(invalidate) which
    // really are empty.
    let (body_len, last) = if declared == 0 && id != SM_PAD && id != SM_INFO_TS {
      (b.len() - body_start, true)
    } else {
      (declared, false)
    };
    if body_start + body_len > b.len() {
      return Err(format!(
        "submessage {id:#x} at {pos}: length {body_len} runs past the datagram ({})",
        b.len()
      ));
    }
    let body = &b[body_start..body_start + body_len];
    framing.push(Framing {
      id,
      flags,
      offset: pos,
      declared_len: declared,
      body_len,
      last,
    });
    msg.subs.push(decode_sub(id, flags, body, be)?);
    pos = body_start + body_len;
  }
  Ok((msg, framing))
}

pub fn decode_sub(id: u8, flags: u8, body: &[u8], be: bool) -> R<Sub> {
  let mut d = Dec::new(body, be);
  let s = match id {
    SM_INFO_TS => {
      if flags & 2 != 0 {
        Sub::InfoTs { ticks: None }
      } else {
        let s = d.u32()? as u64;
        let f = d.u32()? as u64;
        Sub::InfoTs {
          ticks: Some((s << 32) | f),
        }
      }
    }
    SM_INFO_DST => {
      let p = d.take(12)?;
      let mut prefix = [0u8; 12];
      prefix.copy_from_slice(p);
      Sub::InfoDst { prefix }
    }
    SM_INFO_SRC => {
      d.take(8)?;
      let p = d.take(12)?;
      let mut prefix = [0u8; 12];
      prefix.copy_from_slice(p);
      Sub::InfoSrc { prefix }
    }
    SM_DATA => {
      let _extra = d.u16()?;
      let to_qos = d.u16()? as usize;
      let after_to_qos = d.pos;
      let reader = d.eid()?;
      let writer = d.eid()?;
      let sn = d.sn()?;
      // skip to inline qos / payload
      let target = after_to_qos + to_qos;
      if target < d.pos || target > body.len() {
        return Err(format!("DATA octetsToInlineQos {to_qos} out of range"));
      }
      d.pos = target;
      let inline_qos = if flags & 2 != 0 {
        Some(d.params()?)
      } else {
        None
      };
      let has_data = flags & 4 != 0;
      let has_key = flags & 8 != 0;
      let payload = if has_data || has_key {
        Some(d.take(d.left())?.to_vec())
      } else {
        None
      };
      Sub::Data {
        reader,
        writer,
        sn,
        inline_qos,
        has_data,
        has_key,
        payload,
      }
    }
    SM_DATA_FRAG => {
      let _extra = d.u16()?;
      let to_qos = d.u16()? as usize;
      let after_to_qos = d.pos;
      let reader = d.eid()?;
      let writer = d.eid()?;
      let sn = d.sn()?;
      let frag_start = d.u32()?;
      let frags_in_sub = d.u16()?;
      let frag_size = d.u16()?;
      let sample_size = d.u32()?;
      let target = after_to_qos + to_qos;
      if target < d.pos || target > body.len() {
        return Err(format!("DATA_FRAG octetsToInlineQos {to_qos} out of range"));
      }
      d.pos = target;
      let inline_qos = if flags & 2 != 0 {
        Some(d.params()?)
      } else {
        None
      };
      let has_key = flags & 4 != 0;
      let payload = d.take(d.left())?.to_vec();
      Sub::DataFrag {
        reader,
        writer,
        sn,
        frag_start,
        frags_in_sub,
        frag_size,
        sample_size,
        inline_qos,
        has_key,
        payload,
      }
    }
    SM_HEARTBEAT => {
      let reader = d.eid()?;
      let writer = d.eid()?;
      let first = d.sn()?;
      let last = d.sn()?;
      let count = d.i32()?;
      Sub::Heartbeat {
        reader,
        writer,
        first,
        last,
        count,
        final_flag: flags & 2 != 0,
        liveliness: flags & 4 != 0,
      }
    }
    SM_GAP => {
      let reader = d.eid()?;
      let writer = d.eid()?;
      let start = d.sn()?;
      let list = d.snset()?;
      Sub::Gap {
        reader,
        writer,
        start,
        list,
      }
    }
    SM_ACKNACK => {
      let reader = d.eid()?;
      let writer = d.eid()?;
      let state = d.snset()?;
      let count = d.i32()?;
      Sub::AckNack {
        reader,
        writer,
        state,
        count,
        final_flag: flags & 2 != 0,
      }
    }
    SM_NACK_FRAG => {
      let reader = d.eid()?;
      let writer = d.eid()?;
      let sn = d.sn()?;
      let state = d.fnset()?;
      let count = d.i32()?;
      Sub::NackFrag {
        reader,
        writer,
        sn,
        state,
        count,
      }
    }
    SM_HEARTBEAT_FRAG => {
      let reader = d.eid()?;
      let writer = d.eid()?;
      let sn = d.sn()?;
      let last_frag = d.u32()?;
      let count = d.i32()?;
      Sub::HeartbeatFrag {
        reader,
        writer,
        sn,
        last_frag,
        count,
      }
    }
    _ => Sub::Other {
      id,
      flags,
      body: body.to_vec(),
    },
  };
  Ok(s)
}

pub fn sub_name(s: &Sub) -> &'static str {
  match s {
    Sub::InfoTs { .. } => "INFO_TS",
    Sub::InfoDst { .. } => "INFO_DST",
    Sub::InfoSrc { .. } => "INFO_SRC",
    Sub::Data { .. } => "DATA",
    Sub::DataFrag { .. } => "DATA_FRAG",
    Sub::Heartbeat { .. } => "HEARTBEAT",
    Sub::Gap { .. } => "GAP",
    Sub::AckNack { .. } => "ACKNACK",
    Sub::NackFrag { .. } => "NACK_FRAG",
    Sub::HeartbeatFrag { .. } => "HEARTBEAT_FRAG",
    Sub::Other { .. } => "OTHER",
  }
}

/// short human-readable form for traces and evidence samples
pub fn sub_brief(s: &Sub) -> String {
  match s {
    Sub::InfoTs { ticks } => format!("TS({})", ticks.map_or("inv".into(), |t| format!("{t:x}"))),
    Sub::InfoDst { prefix } => format!("DST({:02x})", prefix[11]),
    Sub::InfoSrc { prefix } => format!("SRC({:02x})", prefix[11]),
    Sub::Data {
      sn,
      payload,
      has_data,
      has_key,
      ..
    } => format!(
      "DATA#{sn}{}{}[{}]",
      if *has_data { "d" } else { "" },
      if *has_key { "k" } else { "" },
      payload.as_ref().map_or(0, |p| p.len())
    ),
    Sub::DataFrag {
      sn,
      frag_start,
      frags_in_sub,
      sample_size,
      ..
    } => format!("FRAG#{sn}.{frag_start}+{frags_in_sub}/{sample_size}"),
    Sub::Heartbeat {
      first,
      last,
      count,
      final_flag,
      ..
    } => format!("HB[{first}..{last}]c{count}{}", if *final_flag { "F" } else { "" }),
    Sub::Gap { start, list, .. } => format!("GAP[{start}..{}){:?}", list.base, list.members),
    Sub::AckNack {
      state,
      count,
      final_flag,
      ..
    } => format!(
      "ACKNACK(b{} {:?})c{count}{}",
      state.base,
      state.members,
      if *final_flag { "F" } else { "" }
    ),
    Sub::NackFrag {
      sn, state, count, ..
    } => format!("NACKFRAG#{sn}(b{} {:?})c{count}", state.base, state.members),
    Sub::HeartbeatFrag { sn, last_frag, .. } => format!("HBFRAG#{sn}..{last_frag}"),
    Sub::Other { id, .. } => format!("SM{id:#x}"),
  }
}

pub fn msg_brief(b: &[u8]) -> String {
  match decode_msg(b) {
    Ok((m, _)) => {
      let v: Vec<String> = m.subs.iter().map(sub_brief).collect();
      format!("{:02x}:{}", m.prefix[11], v.join(","))
    }
    Err(e) => format!("<undecodable {} bytes: {e}>", b.len()),
  }
}
