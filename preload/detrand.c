/* LD_PRELOAD interposer: makes OS randomness a deterministic, resettable
 * stream, so that std::collections::HashMap seeds (RandomState), rand's
 * thread_rng/OsRng and crypto nonces are identical run to run.
 * Covers the libc symbol getrandom() and the raw syscall(SYS_getrandom, ..)
 * path used by the `getrandom` crate.  Only used for simulation workers. */
#define _GNU_SOURCE
#include <dlfcn.h>
#include <stdarg.h>
#include <stdint.h>
#include <stddef.h>
#include <sys/syscall.h>
#include <sys/types.h>
#include <unistd.h>

static volatile uint64_t g_seed = 0x1234567887654321ULL;
static volatile uint64_t g_ctr = 0;
static volatile uint64_t g_calls = 0;

static uint64_t mix(uint64_t x) {
  x += 0x9E3779B97F4A7C15ULL;
  x = (x ^ (x >> 30)) * 0xBF58476D1CE4E5B9ULL;
  x = (x ^ (x >> 27)) * 0x94D049BB133111EBULL;
  return x ^ (x >> 31);
}

static void fill(unsigned char *buf, size_t len) {
  size_t i = 0;
  __sync_fetch_and_add(&g_calls, 1);
  while (i < len) {
    uint64_t c = __sync_fetch_and_add(&g_ctr, 1);
    uint64_t v = mix(g_seed ^ mix(c));
    for (int k = 0; k < 8 && i < len; k++, i++) buf[i] = (unsigned char)(v >> (8 * k));
  }
}

void verif_detrand_reset(uint64_t seed) {
  g_seed = seed;
  g_ctr = 0;
}

uint64_t verif_detrand_calls(void) { return g_calls; }

ssize_t getrandom(void *buf, size_t buflen, unsigned int flags) {
  (void)flags;
  fill((unsigned char *)buf, buflen);
  return (ssize_t)buflen;
}

int getentropy(void *buf, size_t buflen) {
  fill((unsigned char *)buf, buflen);
  return 0;
}

long syscall(long number, ...) {
  static long (*real)(long, ...) = 0;
  va_list ap;
  va_start(ap, number);
  long a = va_arg(ap, long), b = va_arg(ap, long), c = va_arg(ap, long);
  long d = va_arg(ap, long), e = va_arg(ap, long), f = va_arg(ap, long);
  va_end(ap);
  if (number == SYS_getrandom) {
    fill((unsigned char *)a, (size_t)b);
    return b;
  }
  if (!real) real = (long (*)(long, ...))dlsym(RTLD_NEXT, "syscall");
  return real(number, a, b, c, d, e, f);
}
