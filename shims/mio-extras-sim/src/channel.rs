//! Thread-safe channel implementing `Evented`: std mpsc for the data, the
//! simulator for readiness.  Protocol as in mio-extras: the receiver becomes
//! readable when the number of pending messages goes 0 -> 1 and stops being
//! readable when it goes 1 -> 0 (so an edge-triggered consumer must drain).
//! A blocking `send` on a full bounded channel is a scheduling point.

use std::{
  any::Any,
  error, fmt, io,
  sync::{mpsc, Arc},
};

use mio::{Evented, Poll, PollOpt, Ready, Token};

struct Ctl {
  src: simcore::SrcId,
}

impl Drop for Ctl {
  fn drop(&mut self) {
    simcore::src_drop(self.src);
  }
}

pub fn channel<T>() -> (Sender<T>, Receiver<T>) {
  let ctl = Arc::new(Ctl {
    src: simcore::chan_new(None),
  });
  let (tx, rx) = mpsc::channel();
  (
    Sender {
      tx,
      ctl: ctl.clone(),
    },
    Receiver { rx, ctl },
  )
}

pub fn sync_channel<T>(bound: usize) -> (SyncSender<T>, Receiver<T>) {
  let ctl = Arc::new(Ctl {
    src: simcore::chan_new(Some(bound)),
  });
  // the simulator may have been told to shrink this capacity for the run
  let eff = simcore::chan_effective_cap(ctl.src).unwrap_or(bound);
  let (tx, rx) = mpsc::sync_channel(eff);
  (
    SyncSender {
      tx,
      ctl: ctl.clone(),
    },
    Receiver { rx, ctl },
  )
}

pub struct Sender<T> {
  tx: mpsc::Sender<T>,
  ctl: Arc<Ctl>,
}

pub struct SyncSender<T> {
  tx: mpsc::SyncSender<T>,
  ctl: Arc<Ctl>,
}

pub struct Receiver<T> {
  rx: mpsc::Receiver<T>,
  ctl: Arc<Ctl>,
}

pub enum SendError<T> {
  Io(io::Error),
  Disconnected(T),
}

pub enum TrySendError<T> {
  Io(io::Error),
  Full(T),
  Disconnected(T),
}

impl<T> Sender<T> {
  pub fn send(&self, t: T) -> Result<(), SendError<T>> {
    self.tx.send(t).map_err(SendError::from).map(|()| {
      simcore::chan_sent(self.ctl.src);
    })
  }
}

impl<T> Clone for Sender<T> {
  fn clone(&self) -> Sender<T> {
    Sender {
      tx: self.tx.clone(),
      ctl: self.ctl.clone(),
    }
  }
}

impl<T> SyncSender<T> {
  /// Blocking send: when the queue is full the caller yields to the simulator
  /// until there is room (or the receiver is gone).
  pub fn send(&self, t: T) -> Result<(), SendError<T>> {
    let mut item = t;
    loop {
      match self.tx.try_send(item) {
        Ok(()) => {
          simcore::chan_sent(self.ctl.src);
          return Ok(());
        }
        Err(mpsc::TrySendError::Disconnected(t)) => return Err(SendError::Disconnected(t)),
        Err(mpsc::TrySendError::Full(t)) => {
          item = t;
          simcore::chan_note_full();
          simcore::chan_wait_for_space(self.ctl.src);
        }
      }
    }
  }

  pub fn try_send(&self, t: T) -> Result<(), TrySendError<T>> {
    match self.tx.try_send(t) {
      Ok(()) => {
        simcore::chan_sent(self.ctl.src);
        Ok(())
      }
      Err(mpsc::TrySendError::Full(t)) => {
        simcore::chan_note_full();
        Err(TrySendError::Full(t))
      }
      Err(mpsc::TrySendError::Disconnected(t)) => Err(TrySendError::Disconnected(t)),
    }
  }
}

impl<T> Clone for SyncSender<T> {
  fn clone(&self) -> SyncSender<T> {
    SyncSender {
      tx: self.tx.clone(),
      ctl: self.ctl.clone(),
    }
  }
}

impl<T> Receiver<T> {
  pub fn try_recv(&self) -> Result<T, mpsc::TryRecvError> {
    self.rx.try_recv().map(|t| {
      simcore::chan_received(self.ctl.src);
      t
    })
  }

  /// number of messages sent and not yet received (simulator's count)
  pub fn sim_pending(&self) -> usize {
    simcore::chan_pending(self.ctl.src)
  }
}

impl<T> Drop for Receiver<T> {
  fn drop(&mut self) {
    simcore::chan_rx_dropped(self.ctl.src);
  }
}

impl<T> Evented for Receiver<T> {
  fn register(&self, poll: &Poll, token: Token, _i: Ready, opts: PollOpt) -> io::Result<()> {
    mio::sim_register(self.ctl.src, poll, token, opts)
  }
  fn reregister(&self, poll: &Poll, token: Token, _i: Ready, opts: PollOpt) -> io::Result<()> {
    mio::sim_register(self.ctl.src, poll, token, opts)
  }
  fn deregister(&self, _poll: &Poll) -> io::Result<()> {
    simcore::src_deregister(self.ctl.src)
  }
}

impl<T> From<mpsc::SendError<T>> for SendError<T> {
  fn from(src: mpsc::SendError<T>) -> SendError<T> {
    SendError::Disconnected(src.0)
  }
}

impl<T> From<io::Error> for SendError<T> {
  fn from(src: io::Error) -> SendError<T> {
    SendError::Io(src)
  }
}

impl<T> From<mpsc::TrySendError<T>> for TrySendError<T> {
  fn from(src: mpsc::TrySendError<T>) -> TrySendError<T> {
    match src {
      mpsc::TrySendError::Full(v) => TrySendError::Full(v),
      mpsc::TrySendError::Disconnected(v) => TrySendError::Disconnected(v),
    }
  }
}

impl<T> From<mpsc::SendError<T>> for TrySendError<T> {
  fn from(src: mpsc::SendError<T>) -> TrySendError<T> {
    TrySendError::Disconnected(src.0)
  }
}

impl<T> From<io::Error> for TrySendError<T> {
  fn from(src: io::Error) -> TrySendError<T> {
    TrySendError::Io(src)
  }
}

impl<T: Any> error::Error for SendError<T> {}
impl<T: Any> error::Error for TrySendError<T> {}

impl<T> fmt::Debug for SendError<T> {
  fn fmt(&self, f: &mut fmt::Formatter<'_>) -> fmt::Result {
    format_send_error(self, f)
  }
}

impl<T> fmt::Display for SendError<T> {
  fn fmt(&self, f: &mut fmt::Formatter<'_>) -> fmt::Result {
    format_send_error(self, f)
  }
}

impl<T> fmt::Debug for TrySendError<T> {
  fn fmt(&self, f: &mut fmt::Formatter<'_>) -> fmt::Result {
    format_try_send_error(self, f)
  }
}

impl<T> fmt::Display for TrySendError<T> {
  fn fmt(&self, f: &mut fmt::Formatter<'_>) -> fmt::Result {
    format_try_send_error(self, f)
  }
}

#[inline]
fn format_send_error<T>(e: &SendError<T>, f: &mut fmt::Formatter<'_>) -> fmt::Result {
  match e {
    SendError::Io(ref io_err) => write!(f, "{}", io_err),
    SendError::Disconnected(..) => write!(f, "Disconnected(..)"),
  }
}

#[inline]
fn format_try_send_error<T>(e: &TrySendError<T>, f: &mut fmt::Formatter<'_>) -> fmt::Result {
  match e {
    TrySendError::Io(ref io_err) => write!(f, "{}", io_err),
    TrySendError::Full(..) => write!(f, "Full(..)"),
    TrySendError::Disconnected(..) => write!(f, "Disconnected(..)"),
  }
}
