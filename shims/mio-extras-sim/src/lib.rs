//! Stand-in for mio-extras 2.0.6 `channel` and `timer`.
pub mod channel;
pub mod timer;
