//! Timer with the mio-extras API whose deadlines live on the simulated clock.
//! There is no wheel and no helper thread: the simulator raises the timer's
//! readiness when an entry falls due (once per entry, like the one-shot
//! wake-up of the real helper thread) and `poll()` hands out due entries in
//! deadline order.

use std::{collections::BTreeMap, fmt, io, time::Duration};

use mio::{Evented, Poll, PollOpt, Ready, Token};

pub struct Timer<T> {
  src: simcore::SrcId,
  states: BTreeMap<u64, T>,
}

pub struct Builder {
  tick: Duration,
  num_slots: usize,
  capacity: usize,
}

#[derive(Clone, Debug)]
pub struct Timeout {
  entry: u64,
}

impl Builder {
  pub fn tick_duration(mut self, duration: Duration) -> Builder {
    self.tick = duration;
    self
  }
  pub fn num_slots(mut self, num_slots: usize) -> Builder {
    self.num_slots = num_slots;
    self
  }
  pub fn capacity(mut self, capacity: usize) -> Builder {
    self.capacity = capacity;
    self
  }
  pub fn build<T>(self) -> Timer<T> {
    let _ = (self.tick, self.num_slots, self.capacity);
    Timer {
      src: simcore::timer_new(),
      states: BTreeMap::new(),
    }
  }
}

impl Default for Builder {
  fn default() -> Builder {
    Builder {
      tick: Duration::from_millis(100),
      num_slots: 256,
      capacity: 65_536,
    }
  }
}

impl<T> Timer<T> {
  pub fn set_timeout(&mut self, delay_from_now: Duration, state: T) -> Timeout {
    let ns = delay_from_now.as_nanos().min(u64::MAX as u128 / 4) as u64;
    let entry = simcore::timer_set(self.src, ns);
    self.states.insert(entry, state);
    Timeout { entry }
  }

  pub fn cancel_timeout(&mut self, timeout: &Timeout) -> Option<T> {
    if simcore::timer_cancel(self.src, timeout.entry) {
      self.states.remove(&timeout.entry)
    } else {
      None
    }
  }

  pub fn poll(&mut self) -> Option<T> {
    loop {
      match simcore::timer_pop_due(self.src) {
        None => return None,
        Some(entry) => {
          if let Some(s) = self.states.remove(&entry) {
            return Some(s);
          }
        }
      }
    }
  }

  pub fn sim_src(&self) -> simcore::SrcId {
    self.src
  }
}

impl<T> Default for Timer<T> {
  fn default() -> Timer<T> {
    Builder::default().build()
  }
}

impl<T> Drop for Timer<T> {
  fn drop(&mut self) {
    simcore::src_drop(self.src);
  }
}

impl<T> Evented for Timer<T> {
  fn register(&self, poll: &Poll, token: Token, _i: Ready, opts: PollOpt) -> io::Result<()> {
    mio::sim_register(self.src, poll, token, opts)
  }
  fn reregister(&self, poll: &Poll, token: Token, _i: Ready, opts: PollOpt) -> io::Result<()> {
    mio::sim_register(self.src, poll, token, opts)
  }
  fn deregister(&self, _poll: &Poll) -> io::Result<()> {
    simcore::src_deregister(self.src)
  }
}

impl<T> fmt::Debug for Timer<T> {
  fn fmt(&self, f: &mut fmt::Formatter<'_>) -> fmt::Result {
    write!(f, "Timer(sim {})", self.src)
  }
}
