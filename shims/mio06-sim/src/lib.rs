//! Stand-in for the parts of mio 0.6 that RustDDS uses.
//!
//! `Poll::poll` does not wait on epoll: it parks the calling thread in the
//! simulator, which decides (from the run's seed) when it continues and which
//! of the ready sources it is told about.  The readiness protocol mirrors
//! mio 0.6's user-space readiness queue: a source is queued when its readiness
//! is raised, an edge-triggered source is dequeued on delivery, an event is
//! produced only if the source is still ready when the queue is drained, and
//! one `poll` returns at most `Events::capacity()` events.

use std::{fmt, io, ops, time::Duration};

#[derive(Copy, Clone, Debug, PartialEq, Eq, PartialOrd, Ord, Hash)]
pub struct Token(pub usize);

impl From<usize> for Token {
  fn from(v: usize) -> Token {
    Token(v)
  }
}
impl From<Token> for usize {
  fn from(t: Token) -> usize {
    t.0
  }
}

#[derive(Copy, Clone, PartialEq, Eq, PartialOrd, Ord)]
pub struct Ready(usize);

impl Ready {
  pub fn empty() -> Ready {
    Ready(0)
  }
  pub fn readable() -> Ready {
    Ready(1)
  }
  pub fn writable() -> Ready {
    Ready(2)
  }
  pub fn all() -> Ready {
    Ready(3)
  }
  pub fn is_empty(&self) -> bool {
    self.0 == 0
  }
  pub fn is_readable(&self) -> bool {
    self.0 & 1 != 0
  }
  pub fn is_writable(&self) -> bool {
    self.0 & 2 != 0
  }
  pub fn contains(&self, o: Ready) -> bool {
    self.0 & o.0 == o.0
  }
}
impl ops::BitOr for Ready {
  type Output = Ready;
  fn bitor(self, o: Ready) -> Ready {
    Ready(self.0 | o.0)
  }
}
impl ops::BitAnd for Ready {
  type Output = Ready;
  fn bitand(self, o: Ready) -> Ready {
    Ready(self.0 & o.0)
  }
}
impl fmt::Debug for Ready {
  fn fmt(&self, f: &mut fmt::Formatter<'_>) -> fmt::Result {
    write!(f, "Ready({})", self.0)
  }
}

#[derive(Copy, Clone, PartialEq, Eq, Debug)]
pub struct PollOpt(usize);
impl PollOpt {
  pub fn empty() -> PollOpt {
    PollOpt(0)
  }
  pub fn edge() -> PollOpt {
    PollOpt(1)
  }
  pub fn level() -> PollOpt {
    PollOpt(2)
  }
  pub fn oneshot() -> PollOpt {
    PollOpt(4)
  }
  pub fn is_edge(&self) -> bool {
    self.0 & 1 != 0
  }
  pub fn is_level(&self) -> bool {
    self.0 & 2 != 0
  }
}
impl ops::BitOr for PollOpt {
  type Output = PollOpt;
  fn bitor(self, o: PollOpt) -> PollOpt {
    PollOpt(self.0 | o.0)
  }
}

#[derive(Copy, Clone, Debug, PartialEq, Eq)]
pub struct Event {
  kind: Ready,
  token: Token,
}
impl Event {
  pub fn new(readiness: Ready, token: Token) -> Event {
    Event {
      kind: readiness,
      token,
    }
  }
  pub fn readiness(&self) -> Ready {
    self.kind
  }
  pub fn token(&self) -> Token {
    self.token
  }
}

pub struct Events {
  cap: usize,
  v: Vec<Event>,
}
impl Events {
  pub fn with_capacity(cap: usize) -> Events {
    Events {
      cap,
      v: Vec::with_capacity(cap),
    }
  }
  pub fn capacity(&self) -> usize {
    self.cap
  }
  pub fn len(&self) -> usize {
    self.v.len()
  }
  pub fn is_empty(&self) -> bool {
    self.v.is_empty()
  }
  pub fn get(&self, i: usize) -> Option<Event> {
    self.v.get(i).copied()
  }
  pub fn iter(&self) -> Iter<'_> {
    Iter { inner: self, pos: 0 }
  }
  pub fn clear(&mut self) {
    self.v.clear();
  }
}
impl fmt::Debug for Events {
  fn fmt(&self, f: &mut fmt::Formatter<'_>) -> fmt::Result {
    f.debug_struct("Events").field("len", &self.v.len()).finish()
  }
}
pub struct Iter<'a> {
  inner: &'a Events,
  pos: usize,
}
impl Iterator for Iter<'_> {
  type Item = Event;
  fn next(&mut self) -> Option<Event> {
    let r = self.inner.get(self.pos);
    self.pos += 1;
    r
  }
}
impl<'a> IntoIterator for &'a Events {
  type Item = Event;
  type IntoIter = Iter<'a>;
  fn into_iter(self) -> Iter<'a> {
    self.iter()
  }
}
pub struct IntoIter {
  inner: Events,
  pos: usize,
}
impl Iterator for IntoIter {
  type Item = Event;
  fn next(&mut self) -> Option<Event> {
    let r = self.inner.get(self.pos);
    self.pos += 1;
    r
  }
}
impl IntoIterator for Events {
  type Item = Event;
  type IntoIter = IntoIter;
  fn into_iter(self) -> IntoIter {
    IntoIter {
      inner: self,
      pos: 0,
    }
  }
}

pub trait Evented {
  fn register(&self, poll: &Poll, token: Token, interest: Ready, opts: PollOpt) -> io::Result<()>;
  fn reregister(&self, poll: &Poll, token: Token, interest: Ready, opts: PollOpt)
    -> io::Result<()>;
  fn deregister(&self, poll: &Poll) -> io::Result<()>;
}

pub mod event {
  pub use super::{Event, Evented, Events};
}

pub struct Poll {
  id: simcore::PollId,
}

impl Poll {
  pub fn new() -> io::Result<Poll> {
    Ok(Poll {
      id: simcore::poll_new(),
    })
  }

  /// simulator id, for shim sources
  pub fn sim_id(&self) -> simcore::PollId {
    self.id
  }

  pub fn register<E: ?Sized + Evented>(
    &self,
    handle: &E,
    token: Token,
    interest: Ready,
    opts: PollOpt,
  ) -> io::Result<()> {
    handle.register(self, token, interest, opts)
  }

  pub fn reregister<E: ?Sized + Evented>(
    &self,
    handle: &E,
    token: Token,
    interest: Ready,
    opts: PollOpt,
  ) -> io::Result<()> {
    handle.reregister(self, token, interest, opts)
  }

  pub fn deregister<E: ?Sized + Evented>(&self, handle: &E) -> io::Result<()> {
    handle.deregister(self)
  }

  pub fn poll(&self, events: &mut Events, timeout: Option<Duration>) -> io::Result<usize> {
    events.clear();
    let toks = simcore::poll_wait(
      self.id,
      events.cap.max(1),
      timeout.map(|d| d.as_nanos().min(u64::MAX as u128) as u64),
    );
    for t in toks {
      events.v.push(Event::new(Ready::readable(), Token(t)));
    }
    Ok(events.v.len())
  }
}

impl Drop for Poll {
  fn drop(&mut self) {
    simcore::poll_drop(self.id);
  }
}

impl fmt::Debug for Poll {
  fn fmt(&self, f: &mut fmt::Formatter<'_>) -> fmt::Result {
    write!(f, "Poll(sim {})", self.id)
  }
}

/// Registration helper for shim sources.
pub fn sim_register(src: simcore::SrcId, poll: &Poll, token: Token, opts: PollOpt) -> io::Result<()> {
  simcore::src_register(src, poll.sim_id(), token.0, !opts.is_level())
}

pub mod net {
  use std::{
    io,
    net::{Ipv4Addr, SocketAddr},
  };

  use super::{Evented, Poll, PollOpt, Ready, Token};

  /// A simulated UDP socket: a receive queue inside the simulator, addressed
  /// by (simulated host address, logical port).  No file descriptor.
  #[derive(Debug)]
  pub struct UdpSocket {
    src: simcore::SrcId,
  }

  impl UdpSocket {
    pub fn sim_bind(port: u16, reuse: bool) -> io::Result<UdpSocket> {
      Ok(UdpSocket {
        src: simcore::sock_bind(port, reuse)?,
      })
    }

    /// mio's constructor from a bound std socket: the real socket is closed
    /// and a simulated one takes over its port number.
    pub fn from_socket(socket: std::net::UdpSocket) -> io::Result<UdpSocket> {
      let port = socket.local_addr()?.port();
      drop(socket);
      Self::sim_bind(port, true)
    }

    pub fn sim_src(&self) -> simcore::SrcId {
      self.src
    }

    pub fn local_addr(&self) -> io::Result<SocketAddr> {
      simcore::sock_local_addr(self.src)
    }

    pub fn recv(&self, buf: &mut [u8]) -> io::Result<usize> {
      match simcore::sock_recv(self.src) {
        Some(d) => {
          let n = d.len().min(buf.len());
          buf[..n].copy_from_slice(&d[..n]);
          Ok(n)
        }
        None => Err(io::Error::new(io::ErrorKind::WouldBlock, "sim: no datagram")),
      }
    }

    pub fn join_multicast_v4(&self, multiaddr: &Ipv4Addr, _interface: &Ipv4Addr) -> io::Result<()> {
      simcore::sock_join(self.src, *multiaddr);
      Ok(())
    }

    pub fn leave_multicast_v4(
      &self,
      multiaddr: &Ipv4Addr,
      _interface: &Ipv4Addr,
    ) -> io::Result<()> {
      simcore::sock_leave(self.src, *multiaddr);
      Ok(())
    }
  }

  impl Drop for UdpSocket {
    fn drop(&mut self) {
      simcore::src_drop(self.src);
    }
  }

  impl Evented for UdpSocket {
    fn register(&self, poll: &Poll, token: Token, _i: Ready, opts: PollOpt) -> io::Result<()> {
      super::sim_register(self.src, poll, token, opts)
    }
    fn reregister(&self, poll: &Poll, token: Token, _i: Ready, opts: PollOpt) -> io::Result<()> {
      super::sim_register(self.src, poll, token, opts)
    }
    fn deregister(&self, _poll: &Poll) -> io::Result<()> {
      simcore::src_deregister(self.src)
    }
  }
}
