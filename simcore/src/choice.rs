//! The single source of every decision in a simulated run.
//!
//! In search mode the values come from a PRNG seeded with the run's seed and
//! are recorded; in replay mode they come from a recorded (possibly
//! minimised) list.  Generators are written so that the value 0 is always the
//! simplest choice (no fault, in-order delivery, first enabled action,
//! smallest size): the minimiser shrinks a failing run by deleting and
//! zeroing entries of the list, and a list that has run out yields zeros.

use std::sync::Mutex;

use crate::prng::Prng;

/// Copy of the decisions of the run in progress, readable from a watchdog
/// thread when the run itself never returns (hang).
static MIRROR: Mutex<Option<Vec<u64>>> = Mutex::new(None);

pub fn mirror_start() {
  *MIRROR.lock().unwrap_or_else(|e| e.into_inner()) = Some(Vec::with_capacity(256));
}

pub fn mirror_snapshot() -> Option<Vec<u64>> {
  MIRROR.lock().unwrap_or_else(|e| e.into_inner()).clone()
}

pub fn mirror_stop() {
  *MIRROR.lock().unwrap_or_else(|e| e.into_inner()) = None;
}


pub struct Chooser {
  rng: Option<Prng>,
  replay: Vec<u64>,
  pos: usize,
  /// every value actually used, in order
  pub record: Vec<u64>,
  /// number of draws that found the replay list exhausted
  pub overrun: usize,
  pub limit: usize,
}

impl Chooser {
  pub fn from_seed(seed: u64) -> Self {
    Chooser {
      rng: Some(Prng::new(seed)),
      replay: vec![],
      pos: 0,
      record: Vec::with_capacity(256),
      overrun: 0,
      limit: 2_000_000,
    }
  }

  pub fn from_choices(choices: Vec<u64>) -> Self {
    Chooser {
      rng: None,
      replay: choices,
      pos: 0,
      record: Vec::with_capacity(256),
      overrun: 0,
      limit: 2_000_000,
    }
  }

  pub fn is_replay(&self) -> bool {
    self.rng.is_none()
  }

  /// A value in `0..bound`.
  pub fn draw(&mut self, bound: u64) -> u64 {
    let bound = bound.max(1);
    let v = match &mut self.rng {
      Some(r) => {
        if self.record.len() >= self.limit {
          0
        } else {
          r.below(bound)
        }
      }
      None => {
        if self.pos < self.replay.len() {
          let v = self.replay[self.pos];
          self.pos += 1;
          v.min(bound - 1)
        } else {
          self.overrun += 1;
          0
        }
      }
    };
    self.record.push(v);
    if let Ok(mut m) = MIRROR.try_lock() {
      if let Some(r) = m.as_mut() {
        r.push(v);
      }
    }
    v
  }

  /// true with probability num/den; the value 0 maps to false.
  pub fn chance(&mut self, num: u64, den: u64) -> bool {
    if num == 0 {
      // still consume nothing: a disabled fault must not shift the stream
      return false;
    }
    let v = self.draw(den);
    v >= den.saturating_sub(num)
  }

  pub fn flag(&mut self) -> bool {
    self.draw(2) == 1
  }

  /// inclusive range, lo is the simplest
  pub fn range(&mut self, lo: u64, hi: u64) -> u64 {
    debug_assert!(hi >= lo);
    lo + self.draw(hi - lo + 1)
  }

  pub fn index(&mut self, len: usize) -> usize {
    self.draw(len as u64) as usize
  }

  pub fn pick<'a, T>(&mut self, xs: &'a [T]) -> &'a T {
    &xs[self.index(xs.len())]
  }

  /// index into weights; bucket 0 is the simplest
  pub fn weighted(&mut self, weights: &[u64]) -> usize {
    let total: u64 = weights.iter().sum();
    if total == 0 {
      return 0;
    }
    let mut v = self.draw(total);
    for (i, w) in weights.iter().enumerate() {
      if v < *w {
        return i;
      }
      v -= *w;
    }
    weights.len() - 1
  }

  /// Fisher-Yates driven by draws; all-zero draws leave the order unchanged.
  pub fn shuffle<T>(&mut self, xs: &mut [T]) {
    let n = xs.len();
    for i in 0..n.saturating_sub(1) {
      let j = i + self.index(n - i);
      xs.swap(i, j);
    }
  }
}
