//! FNV-1a digests for traces and state fingerprints.

#[derive(Clone, Copy, Debug)]
pub struct Fnv(pub u64);

impl Default for Fnv {
  fn default() -> Self {
    Fnv(0xcbf2_9ce4_8422_2325)
  }
}

impl Fnv {
  pub fn new() -> Self {
    Self::default()
  }
  pub fn bytes(&mut self, b: &[u8]) -> &mut Self {
    for x in b {
      self.0 ^= *x as u64;
      self.0 = self.0.wrapping_mul(0x0000_0100_0000_01B3);
    }
    self
  }
  pub fn u64(&mut self, v: u64) -> &mut Self {
    self.bytes(&v.to_le_bytes())
  }
  pub fn str(&mut self, s: &str) -> &mut Self {
    self.bytes(s.as_bytes()).bytes(&[0xff])
  }
  pub fn get(&self) -> u64 {
    self.0
  }
}

pub fn fnv(b: &[u8]) -> u64 {
  let mut f = Fnv::new();
  f.bytes(b);
  f.get()
}
