//! simcore — the deterministic simulation kernel shared by the dependency
//! shims (mio06-sim, mio-extras-sim), the in-crate facade (`rustdds::verif`)
//! and the harness.
//!
//! It owns: the simulated clock, the registry of readiness sources (channels,
//! timers, UDP sockets), simulated `Poll` instances, the baton scheduler for
//! real OS threads, and the outbox of datagrams sent by RustDDS.  It never
//! draws random numbers itself: every choice is made by the harness (through
//! its recorded `Chooser`) and handed in.

pub mod choice;
pub mod digest;
pub mod prng;
pub mod sim;

pub use sim::*;
