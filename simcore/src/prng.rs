//! splitmix64-seeded xoshiro256** — small, fast, reproducible everywhere.

#[derive(Clone, Debug)]
pub struct Prng {
  s: [u64; 4],
}

pub fn splitmix64(x: &mut u64) -> u64 {
  *x = x.wrapping_add(0x9E37_79B9_7F4A_7C15);
  let mut z = *x;
  z = (z ^ (z >> 30)).wrapping_mul(0xBF58_476D_1CE4_E5B9);
  z = (z ^ (z >> 27)).wrapping_mul(0x94D0_49BB_1331_11EB);
  z ^ (z >> 31)
}

/// Stateless mix of several integers into one seed (run i of a batch uses
/// `mix(&[base_seed, property_tag, i])`).
pub fn mix(parts: &[u64]) -> u64 {
  let mut h: u64 = 0x243F_6A88_85A3_08D3;
  for p in parts {
    let mut x = h ^ *p;
    h = splitmix64(&mut x).rotate_left(17) ^ x;
  }
  let mut x = h;
  splitmix64(&mut x)
}

impl Prng {
  pub fn new(seed: u64) -> Self {
    let mut x = seed;
    let s = [
      splitmix64(&mut x),
      splitmix64(&mut x),
      splitmix64(&mut x),
      splitmix64(&mut x),
    ];
    Prng { s }
  }

  pub fn next_u64(&mut self) -> u64 {
    let result = self.s[1].wrapping_mul(5).rotate_left(7).wrapping_mul(9);
    let t = self.s[1] << 17;
    self.s[2] ^= self.s[0];
    self.s[3] ^= self.s[1];
    self.s[1] ^= self.s[2];
    self.s[0] ^= self.s[3];
    self.s[2] ^= t;
    self.s[3] = self.s[3].rotate_left(45);
    result
  }

  /// Uniform in `0..bound` (`bound >= 1`).
  pub fn below(&mut self, bound: u64) -> u64 {
    debug_assert!(bound >= 1);
    if bound <= 1 {
      return 0;
    }
    // Lemire-style rejection-free enough for simulation purposes
    ((self.next_u64() as u128 * bound as u128) >> 64) as u64
  }
}
