//! The simulated world: clock, readiness sources, polls, threads, sockets.
//!
//! All state lives behind one mutex.  Exactly one simulated thread (or the
//! driver) runs at any time, so the mutex is never contended; it exists to
//! make hand-over between real OS threads sound.

use std::{
  cell::{Cell, RefCell},
  collections::{BTreeMap, VecDeque},
  io,
  net::{Ipv4Addr, SocketAddr, SocketAddrV4},
  sync::{Condvar, Mutex, MutexGuard},
  time::Duration,
};

pub type Tid = u32;
pub type PollId = u32;
pub type SrcId = u32;

/// 2030-01-01T00:00:00Z in ns since the Unix epoch: far from 0 and from the 2106 wrap.
pub const EPOCH_UNIX_NS: u64 = 1_893_456_000_000_000_000;

#[derive(Clone, Debug)]
pub struct Datagram {
  pub seq: u64,
  pub sent_at: u64,
  pub src_node: u32,
  pub dst: SocketAddr,
  pub bytes: Vec<u8>,
}

#[derive(Clone, Debug)]
struct Reg {
  poll: PollId,
  token: usize,
  edge: bool,
}

#[derive(Clone, Debug)]
struct TimerEntry {
  id: u64,
  deadline: u64,
  signalled: bool,
}

#[derive(Debug)]
enum SrcKind {
  Chan {
    cap: Option<usize>,
    pending: usize,
    rx_alive: bool,
  },
  Timer {
    entries: Vec<TimerEntry>,
  },
  Sock {
    ip: Ipv4Addr,
    port: u16,
    reuse: bool,
    inbox: VecDeque<Vec<u8>>,
    groups: Vec<Ipv4Addr>,
    dropped_overflow: u64,
  },
}

#[derive(Debug)]
struct Src {
  kind: SrcKind,
  node: u32,
  reg: Option<Reg>,
  ready: bool,
  queued: bool,
}

#[derive(Debug, Default)]
struct PollSt {
  queue: VecDeque<SrcId>,
}

#[derive(Clone, Debug, PartialEq, Eq)]
pub enum TState {
  Entry,
  Running,
  ParkedPoll {
    poll: PollId,
    deadline: Option<u64>,
    cap: usize,
  },
  ParkedSend {
    src: SrcId,
  },
  ParkedSleep {
    until: u64,
  },
  ParkedYield {
    site: &'static str,
  },
  Exited {
    panicked: bool,
  },
}

#[derive(Clone, Debug)]
pub enum Grant {
  Go,
  Events(Vec<usize>),
}

#[derive(Debug)]
struct ThreadSt {
  std_id: Option<std::thread::ThreadId>,
  name: String,
  node: u32,
  state: TState,
  grant: Option<Grant>,
}

/// What the driver may do next with a simulated thread.
#[derive(Clone, Debug, PartialEq, Eq)]
pub enum EnabledKind {
  Entry,
  PollReady { ready: Vec<(SrcId, usize)> },
  PollTimeout,
  SendSpace,
  SleepDue,
  Yield { site: &'static str },
}

#[derive(Clone, Debug, PartialEq, Eq)]
pub struct Enabled {
  pub tid: Tid,
  pub node: u32,
  pub kind: EnabledKind,
}

#[derive(Debug)]
pub struct Hang {
  pub tid: Tid,
  pub name: String,
}

#[derive(Default, Debug, Clone)]
pub struct Counters {
  pub datagrams_sent: u64,
  pub datagrams_delivered: u64,
  pub inbox_overflow: u64,
  pub thread_steps: u64,
  pub timers_set: u64,
  pub timers_fired: u64,
  pub chan_full: u64,
  pub yields: u64,
}

struct Sim {
  now: u64,
  last_wall_ticks: u64,
  next_id: u32,
  next_timer_entry: u64,
  next_dgram: u64,
  next_ephemeral: u16,
  timer_tick_ns: u64,
  yields_on: bool,
  srcs: BTreeMap<SrcId, Src>,
  polls: BTreeMap<PollId, PollSt>,
  threads: BTreeMap<Tid, ThreadSt>,
  running: Option<Tid>,
  outbox: Vec<Datagram>,
  node_host: BTreeMap<u32, u32>,
  chan_cap_override: BTreeMap<usize, usize>,
  counters: Counters,
  hang_timeout: Duration,
}

impl Sim {
  fn new() -> Self {
    Sim {
      now: 0,
      last_wall_ticks: 0,
      next_id: 1,
      next_timer_entry: 1,
      next_dgram: 1,
      next_ephemeral: 40000,
      timer_tick_ns: 0,
      yields_on: false,
      srcs: BTreeMap::new(),
      polls: BTreeMap::new(),
      threads: BTreeMap::new(),
      running: None,
      outbox: Vec::new(),
      node_host: BTreeMap::new(),
      chan_cap_override: BTreeMap::new(),
      counters: Counters::default(),
      hang_timeout: Duration::from_secs(20),
    }
  }

  // ids are never reused across worlds of one process, so a late Drop of an
  // object of an earlier world cannot hit an object of the current one
  fn alloc_id(&mut self) -> u32 {
    let _ = self.next_id;
    NEXT_ID.fetch_add(1, std::sync::atomic::Ordering::Relaxed)
  }

  fn set_ready(&mut self, id: SrcId, ready: bool) {
    let mut enqueue: Option<PollId> = None;
    if let Some(s) = self.srcs.get_mut(&id) {
      s.ready = ready;
      if ready {
        if let Some(reg) = &s.reg {
          if !s.queued {
            s.queued = true;
            enqueue = Some(reg.poll);
          }
        }
      }
    }
    if let Some(p) = enqueue {
      if let Some(ps) = self.polls.get_mut(&p) {
        ps.queue.push_back(id);
      }
    }
  }

  /// mark due, not yet signalled timer entries and raise readiness
  fn refresh_timers(&mut self) {
    let now = self.now;
    let mut to_ready = Vec::new();
    for (id, s) in self.srcs.iter_mut() {
      if let SrcKind::Timer { entries } = &mut s.kind {
        let mut any = false;
        for e in entries.iter_mut() {
          if !e.signalled && e.deadline <= now {
            e.signalled = true;
            any = true;
          }
        }
        if any {
          to_ready.push(*id);
        }
      }
    }
    for id in to_ready {
      self.counters.timers_fired += 1;
      self.set_ready(id, true);
    }
  }

  fn peek_ready(&self, poll: PollId) -> Vec<(SrcId, usize)> {
    let mut v = Vec::new();
    if let Some(ps) = self.polls.get(&poll) {
      for id in ps.queue.iter() {
        if let Some(s) = self.srcs.get(id) {
          if s.ready {
            if let Some(reg) = &s.reg {
              if reg.poll == poll {
                v.push((*id, reg.token));
              }
            }
          }
        }
      }
    }
    v
  }

  /// Dequeue events for one `Poll::poll` call.  `pick` = explicit choice of
  /// sources (in delivery order); None = queue order, up to `cap`.
  fn collect(&mut self, poll: PollId, cap: usize, pick: Option<&[SrcId]>) -> Vec<usize> {
    let mut out = Vec::new();
    let queue: Vec<SrcId> = match self.polls.get(&poll) {
      Some(ps) => ps.queue.iter().copied().collect(),
      None => return out,
    };
    let order: Vec<SrcId> = match pick {
      Some(p) => p.iter().copied().filter(|x| queue.contains(x)).collect(),
      None => queue.clone(),
    };
    let mut taken: Vec<SrcId> = Vec::new();
    let mut requeue: Vec<SrcId> = Vec::new();
    for id in order {
      if out.len() >= cap.max(1) {
        break;
      }
      let mut drop_silently = false;
      if let Some(s) = self.srcs.get_mut(&id) {
        match (&s.reg, s.ready) {
          (Some(reg), true) if reg.poll == poll => {
            out.push(reg.token);
            s.queued = false;
            if !reg.edge {
              requeue.push(id);
            }
            taken.push(id);
          }
          _ => {
            // readiness vanished (or re-registered elsewhere) while queued: mio drops the node
            if pick.is_none() {
              s.queued = false;
              drop_silently = true;
            }
          }
        }
      } else {
        drop_silently = true;
      }
      if drop_silently {
        taken.push(id);
      }
    }
    if let Some(ps) = self.polls.get_mut(&poll) {
      ps.queue.retain(|x| !taken.contains(x));
      for id in requeue {
        if let Some(s) = self.srcs.get_mut(&id) {
          s.queued = true;
        }
        ps.queue.push_back(id);
      }
    }
    out
  }

  fn host_of(&self, node: u32) -> u32 {
    *self.node_host.get(&node).unwrap_or(&node)
  }

  fn ip_of_node(&self, node: u32) -> Ipv4Addr {
    let h = self.host_of(node);
    Ipv4Addr::new(10, ((h >> 8) & 0xff) as u8, (h & 0xff) as u8, 1)
  }

  fn thread_enabled(&self, tid: Tid, t: &ThreadSt) -> Option<EnabledKind> {
    let _ = tid;
    match &t.state {
      TState::Entry => Some(EnabledKind::Entry),
      TState::Running | TState::Exited { .. } => None,
      TState::ParkedPoll { poll, deadline, .. } => {
        let ready = self.peek_ready(*poll);
        if !ready.is_empty() {
          Some(EnabledKind::PollReady { ready })
        } else if deadline.map_or(false, |d| d <= self.now) {
          Some(EnabledKind::PollTimeout)
        } else {
          None
        }
      }
      TState::ParkedSend { src } => match self.srcs.get(src).map(|s| &s.kind) {
        Some(SrcKind::Chan {
          cap,
          pending,
          rx_alive,
        }) => {
          if !*rx_alive || cap.map_or(true, |c| *pending < c.max(1)) {
            Some(EnabledKind::SendSpace)
          } else {
            None
          }
        }
        _ => Some(EnabledKind::SendSpace),
      },
      TState::ParkedSleep { until } => {
        if *until <= self.now {
          Some(EnabledKind::SleepDue)
        } else {
          None
        }
      }
      TState::ParkedYield { site } => Some(EnabledKind::Yield { site }),
    }
  }

  fn next_deadline(&self) -> Option<u64> {
    let mut best: Option<u64> = None;
    let mut upd = |d: u64| {
      best = Some(best.map_or(d, |b: u64| b.min(d)));
    };
    for s in self.srcs.values() {
      if let SrcKind::Timer { entries } = &s.kind {
        for e in entries {
          if !e.signalled {
            upd(e.deadline);
          }
        }
      }
    }
    for t in self.threads.values() {
      match &t.state {
        TState::ParkedPoll {
          deadline: Some(d), ..
        } => upd(*d),
        TState::ParkedSleep { until } => upd(*until),
        _ => {}
      }
    }
    best
  }
}

static SIM: Mutex<Option<Sim>> = Mutex::new(None);
static NEXT_ID: std::sync::atomic::AtomicU32 = std::sync::atomic::AtomicU32::new(1);
static CV_THREADS: Condvar = Condvar::new();
static CV_DRIVER: Condvar = Condvar::new();

thread_local! {
  static TID: Cell<Option<Tid>> = const { Cell::new(None) };
  static NODE: Cell<u32> = const { Cell::new(0) };
  #[allow(clippy::type_complexity)]
  static STEP_HOOK: RefCell<Option<Box<dyn FnMut(Option<u64>) -> bool>>> = const { RefCell::new(None) };
  #[allow(clippy::type_complexity)]
  static YIELD_HOOK: RefCell<Option<Box<dyn FnMut(&'static str)>>> = const { RefCell::new(None) };
}

fn lock() -> MutexGuard<'static, Option<Sim>> {
  SIM.lock().unwrap_or_else(|e| e.into_inner())
}

fn with<R>(f: impl FnOnce(&mut Sim) -> R) -> R {
  let mut g = lock();
  let sim = g
    .as_mut()
    .expect("simcore: no active world (call simcore::reset() first)");
  f(sim)
}

// ---------------------------------------------------------------------------
// world life cycle, clock
// ---------------------------------------------------------------------------

/// Start a fresh world.  Everything of the previous world is forgotten.
pub fn reset() {
  *lock() = Some(Sim::new());
  TID.with(|t| t.set(None));
  NODE.with(|n| n.set(0));
  STEP_HOOK.with(|h| *h.borrow_mut() = None);
  YIELD_HOOK.with(|h| *h.borrow_mut() = None);
}

pub fn shutdown() {
  *lock() = None;
}

pub fn is_active() -> bool {
  lock().is_some()
}

pub fn now_ns() -> u64 {
  with(|s| s.now)
}

/// Move simulated time forward (never backward) and fire due timers.
pub fn advance_to(t: u64) {
  with(|s| {
    if t > s.now {
      s.now = t;
    }
    s.refresh_timers();
  });
}

pub fn advance_by(d: u64) {
  with(|s| {
    s.now += d;
    s.refresh_timers();
  });
}

/// RTPS `Timestamp` ticks (seconds<<32 | fraction) of "now", strictly
/// increasing from call to call: RustDDS uses receive timestamps as map keys.
pub fn wall_ticks() -> u64 {
  with(|s| {
    let ns = EPOCH_UNIX_NS + s.now;
    let secs = ns / 1_000_000_000;
    let frac = ((ns % 1_000_000_000) << 32) / 1_000_000_000;
    let ticks = (secs << 32) + frac;
    let t = ticks.max(s.last_wall_ticks + 1);
    s.last_wall_ticks = t;
    t
  })
}

/// ns since Unix epoch of "now" (for chrono::Utc shadows); not unique.
pub fn unix_ns() -> u64 {
  with(|s| EPOCH_UNIX_NS + s.now)
}

pub fn set_timer_tick_ns(t: u64) {
  with(|s| s.timer_tick_ns = t);
}

pub fn set_hang_timeout(d: Duration) {
  with(|s| s.hang_timeout = d);
}

pub fn set_yields_enabled(on: bool) {
  with(|s| s.yields_on = on);
}

pub fn counters() -> Counters {
  with(|s| s.counters.clone())
}

// ---------------------------------------------------------------------------
// node identity
// ---------------------------------------------------------------------------

pub fn set_node(n: u32) {
  NODE.with(|c| c.set(n));
}

pub fn node() -> u32 {
  NODE.with(|c| c.get())
}

pub fn set_node_host(node: u32, host: u32) {
  with(|s| {
    s.node_host.insert(node, host);
  });
}

pub fn node_ip(node: u32) -> Ipv4Addr {
  with(|s| s.ip_of_node(node))
}

pub fn current_node_ip() -> Ipv4Addr {
  node_ip(node())
}

// ---------------------------------------------------------------------------
// sources: generic registration
// ---------------------------------------------------------------------------

pub fn src_register(src: SrcId, poll: PollId, token: usize, edge: bool) -> io::Result<()> {
  with(|s| {
    if !s.polls.contains_key(&poll) {
      return Err(io::Error::new(io::ErrorKind::Other, "sim: unknown poll"));
    }
    let (ready, was_queued_in) = match s.srcs.get_mut(&src) {
      None => return Err(io::Error::new(io::ErrorKind::Other, "sim: unknown source")),
      Some(x) => {
        let old = x.reg.as_ref().map(|r| r.poll);
        x.reg = Some(Reg { poll, token, edge });
        let q = x.queued;
        x.queued = false;
        (x.ready, if q { old } else { None })
      }
    };
    if let Some(op) = was_queued_in {
      if let Some(ps) = s.polls.get_mut(&op) {
        ps.queue.retain(|x| *x != src);
      }
    }
    if ready {
      s.set_ready(src, true);
    }
    Ok(())
  })
}

pub fn src_deregister(src: SrcId) -> io::Result<()> {
  with(|s| {
    let old = match s.srcs.get_mut(&src) {
      None => return Ok(()),
      Some(x) => {
        let o = x.reg.take();
        x.queued = false;
        o
      }
    };
    if let Some(r) = old {
      if let Some(ps) = s.polls.get_mut(&r.poll) {
        ps.queue.retain(|x| *x != src);
      }
    }
    Ok(())
  })
}

pub fn src_drop(src: SrcId) {
  let mut g = lock();
  if let Some(s) = g.as_mut() {
    if let Some(x) = s.srcs.remove(&src) {
      if let Some(r) = x.reg {
        if let Some(ps) = s.polls.get_mut(&r.poll) {
          ps.queue.retain(|q| *q != src);
        }
      }
    }
  }
}

// ---------------------------------------------------------------------------
// channels
// ---------------------------------------------------------------------------

pub fn chan_new(cap: Option<usize>) -> SrcId {
  with(|s| {
    let id = s.alloc_id();
    let cap = match cap {
      Some(c) => Some(*s.chan_cap_override.get(&c).unwrap_or(&c)),
      None => None,
    };
    s.srcs.insert(
      id,
      Src {
        kind: SrcKind::Chan {
          cap,
          pending: 0,
          rx_alive: true,
        },
        node: node(),
        reg: None,
        ready: false,
        queued: false,
      },
    );
    id
  })
}

/// Effective capacity of a bounded channel (after a per-run override).
pub fn chan_effective_cap(src: SrcId) -> Option<usize> {
  with(|s| match s.srcs.get(&src).map(|x| &x.kind) {
    Some(SrcKind::Chan { cap, .. }) => *cap,
    _ => None,
  })
}

/// Per-run tuning knob ("buggify"): every bounded channel created from now on
/// with nominal capacity `nominal` gets capacity `actual` instead.
pub fn chan_override_capacity(nominal: usize, actual: usize) {
  with(|s| {
    s.chan_cap_override.insert(nominal, actual);
  });
}

pub fn chan_note_full() {
  with(|s| s.counters.chan_full += 1);
}

/// Called after a successful send.  Mirrors mio-extras `inc`: readable on 0 -> 1.
pub fn chan_sent(src: SrcId) {
  with(|s| {
    let mut raise = false;
    if let Some(Src {
      kind: SrcKind::Chan { pending, .. },
      ..
    }) = s.srcs.get_mut(&src)
    {
      *pending += 1;
      raise = *pending == 1;
    }
    if raise {
      s.set_ready(src, true);
    }
  });
}

/// Called after a successful receive.  Mirrors mio-extras `dec`: empty on 1 -> 0.
pub fn chan_received(src: SrcId) {
  with(|s| {
    let mut lower = false;
    if let Some(Src {
      kind: SrcKind::Chan { pending, .. },
      ..
    }) = s.srcs.get_mut(&src)
    {
      if *pending > 0 {
        *pending -= 1;
      }
      lower = *pending == 0;
    }
    if lower {
      s.set_ready(src, false);
    }
  });
}

pub fn chan_rx_dropped(src: SrcId) {
  let mut g = lock();
  if let Some(s) = g.as_mut() {
    if let Some(Src {
      kind: SrcKind::Chan { rx_alive, .. },
      ..
    }) = s.srcs.get_mut(&src)
    {
      *rx_alive = false;
    }
  }
}

pub fn chan_pending(src: SrcId) -> usize {
  with(|s| match s.srcs.get(&src).map(|x| &x.kind) {
    Some(SrcKind::Chan { pending, .. }) => *pending,
    _ => 0,
  })
}

/// A blocking `send` found the channel full: let somebody else run.
pub fn chan_wait_for_space(src: SrcId) {
  match TID.with(|t| t.get()) {
    Some(tid) => {
      park(tid, TState::ParkedSend { src });
    }
    None => {
      if !driver_step(None) {
        // nothing can run now: let simulated time pass
        let nd = with(|s| s.next_deadline());
        match nd {
          Some(d) => advance_to(d),
          None => panic!("simcore: driver blocked forever on a full channel"),
        }
      }
    }
  }
}

// ---------------------------------------------------------------------------
// timers
// ---------------------------------------------------------------------------

pub fn timer_new() -> SrcId {
  with(|s| {
    let id = s.alloc_id();
    s.srcs.insert(
      id,
      Src {
        kind: SrcKind::Timer { entries: vec![] },
        node: node(),
        reg: None,
        ready: false,
        queued: false,
      },
    );
    id
  })
}

/// Returns the entry id.
pub fn timer_set(src: SrcId, delay_ns: u64) -> u64 {
  with(|s| {
    let id = s.next_timer_entry;
    s.next_timer_entry += 1;
    let mut deadline = s.now.saturating_add(delay_ns);
    if s.timer_tick_ns > 0 {
      // mio-extras rounds to ticks and always targets at least one tick ahead
      let tick = s.timer_tick_ns;
      let t = (deadline + tick / 2) / tick;
      let cur = s.now / tick;
      let t = if t <= cur { cur + 1 } else { t };
      deadline = t * tick;
    }
    s.counters.timers_set += 1;
    if let Some(Src {
      kind: SrcKind::Timer { entries },
      ..
    }) = s.srcs.get_mut(&src)
    {
      entries.push(TimerEntry {
        id,
        deadline,
        signalled: false,
      });
    }
    id
  })
}

pub fn timer_cancel(src: SrcId, entry: u64) -> bool {
  with(|s| {
    if let Some(Src {
      kind: SrcKind::Timer { entries },
      ..
    }) = s.srcs.get_mut(&src)
    {
      let n = entries.len();
      entries.retain(|e| e.id != entry);
      return entries.len() != n;
    }
    false
  })
}

/// Pop the earliest due entry (deadline <= now), if any.
pub fn timer_pop_due(src: SrcId) -> Option<u64> {
  with(|s| {
    let now = s.now;
    let mut res = None;
    let mut none_left = false;
    if let Some(Src {
      kind: SrcKind::Timer { entries },
      ..
    }) = s.srcs.get_mut(&src)
    {
      let mut best: Option<usize> = None;
      for (i, e) in entries.iter().enumerate() {
        if e.deadline <= now {
          match best {
            None => best = Some(i),
            Some(b) => {
              if (e.deadline, e.id) < (entries[b].deadline, entries[b].id) {
                best = Some(i);
              }
            }
          }
        }
      }
      if let Some(i) = best {
        res = Some(entries.remove(i).id);
      }
      none_left = !entries.iter().any(|e| e.deadline <= now);
    }
    if none_left {
      s.set_ready(src, false);
    }
    res
  })
}

/// (source, owning node) of timers that have a due, not yet popped entry.
pub fn timers_due() -> Vec<(SrcId, u32)> {
  with(|s| {
    let now = s.now;
    s.srcs
      .iter()
      .filter_map(|(id, x)| match &x.kind {
        SrcKind::Timer { entries } if entries.iter().any(|e| e.deadline <= now) => {
          Some((*id, x.node))
        }
        _ => None,
      })
      .collect()
  })
}

/// Earliest instant at which something time-driven becomes enabled.
pub fn next_deadline() -> Option<u64> {
  with(|s| s.next_deadline())
}

// ---------------------------------------------------------------------------
// UDP
// ---------------------------------------------------------------------------

/// Called by the `UDPSender` hook.
pub fn udp_send(dst: SocketAddr, bytes: &[u8]) {
  with(|s| {
    let seq = s.next_dgram;
    s.next_dgram += 1;
    s.counters.datagrams_sent += 1;
    let d = Datagram {
      seq,
      sent_at: s.now,
      src_node: node(),
      dst,
      bytes: bytes.to_vec(),
    };
    s.outbox.push(d);
  });
}

pub fn take_outbox() -> Vec<Datagram> {
  with(|s| std::mem::take(&mut s.outbox))
}

pub fn sock_bind(port: u16, reuse: bool) -> io::Result<SrcId> {
  with(|s| {
    let n = node();
    let ip = s.ip_of_node(n);
    let port = if port == 0 {
      let p = s.next_ephemeral;
      s.next_ephemeral += 1;
      p
    } else {
      port
    };
    for x in s.srcs.values() {
      if let SrcKind::Sock {
        ip: oip,
        port: oport,
        reuse: oreuse,
        ..
      } = &x.kind
      {
        if *oip == ip && *oport == port && !(reuse && *oreuse) {
          return Err(io::Error::new(
            io::ErrorKind::AddrInUse,
            "sim: address in use",
          ));
        }
      }
    }
    let id = s.alloc_id();
    s.srcs.insert(
      id,
      Src {
        kind: SrcKind::Sock {
          ip,
          port,
          reuse,
          inbox: VecDeque::new(),
          groups: vec![],
          dropped_overflow: 0,
        },
        node: n,
        reg: None,
        ready: false,
        queued: false,
      },
    );
    Ok(id)
  })
}

pub fn sock_local_addr(src: SrcId) -> io::Result<SocketAddr> {
  with(|s| match s.srcs.get(&src).map(|x| &x.kind) {
    Some(SrcKind::Sock { port, .. }) => Ok(SocketAddr::V4(SocketAddrV4::new(
      Ipv4Addr::UNSPECIFIED,
      *port,
    ))),
    _ => Err(io::Error::new(io::ErrorKind::Other, "sim: no such socket")),
  })
}

pub fn sock_join(src: SrcId, group: Ipv4Addr) {
  with(|s| {
    if let Some(Src {
      kind: SrcKind::Sock { groups, .. },
      ..
    }) = s.srcs.get_mut(&src)
    {
      if !groups.contains(&group) {
        groups.push(group);
      }
    }
  });
}

pub fn sock_leave(src: SrcId, group: Ipv4Addr) {
  let mut g = lock();
  if let Some(s) = g.as_mut() {
    if let Some(Src {
      kind: SrcKind::Sock { groups, .. },
      ..
    }) = s.srcs.get_mut(&src)
    {
      groups.retain(|x| *x != group);
    }
  }
}

pub fn sock_recv(src: SrcId) -> Option<Vec<u8>> {
  with(|s| {
    let mut res = None;
    let mut empty = false;
    if let Some(Src {
      kind: SrcKind::Sock { inbox, .. },
      ..
    }) = s.srcs.get_mut(&src)
    {
      res = inbox.pop_front();
      empty = inbox.is_empty();
    }
    if empty {
      s.set_ready(src, false);
    }
    res
  })
}

/// Sockets a datagram to `dst` reaches: (socket, node).
pub fn route(dst: SocketAddr) -> Vec<(SrcId, u32)> {
  with(|s| {
    let (ip, port) = match dst {
      SocketAddr::V4(a) => (*a.ip(), a.port()),
      SocketAddr::V6(_) => return vec![],
    };
    s.srcs
      .iter()
      .filter_map(|(id, x)| match &x.kind {
        SrcKind::Sock {
          ip: sip,
          port: sport,
          groups,
          ..
        } if *sport == port => {
          if ip.is_multicast() {
            if groups.contains(&ip) {
              Some((*id, x.node))
            } else {
              None
            }
          } else if *sip == ip {
            Some((*id, x.node))
          } else {
            None
          }
        }
        _ => None,
      })
      .collect()
  })
}

pub const INBOX_LIMIT: usize = 512;

/// Put a datagram into a socket's receive queue (edge: always re-signals).
pub fn deliver(sock: SrcId, bytes: Vec<u8>) -> bool {
  with(|s| {
    let mut ok = false;
    let mut exists = false;
    if let Some(Src {
      kind:
        SrcKind::Sock {
          inbox,
          dropped_overflow,
          ..
        },
      ..
    }) = s.srcs.get_mut(&sock)
    {
      exists = true;
      if inbox.len() < INBOX_LIMIT {
        inbox.push_back(bytes);
        ok = true;
      } else {
        *dropped_overflow += 1;
      }
    }
    if ok {
      s.counters.datagrams_delivered += 1;
      s.set_ready(sock, true);
    } else if exists {
      s.counters.inbox_overflow += 1;
    }
    ok
  })
}

// ---------------------------------------------------------------------------
// polls
// ---------------------------------------------------------------------------

pub fn poll_new() -> PollId {
  with(|s| {
    let id = s.alloc_id();
    s.polls.insert(id, PollSt::default());
    id
  })
}

pub fn poll_drop(p: PollId) {
  let mut g = lock();
  if let Some(s) = g.as_mut() {
    s.polls.remove(&p);
    for x in s.srcs.values_mut() {
      if x.reg.as_ref().map_or(false, |r| r.poll == p) {
        x.reg = None;
        x.queued = false;
      }
    }
  }
}

/// The body of the shim `Poll::poll`: THE yield point of a background thread.
pub fn poll_wait(poll: PollId, cap: usize, timeout_ns: Option<u64>) -> Vec<usize> {
  let deadline = timeout_ns.map(|t| now_ns().saturating_add(t));
  match TID.with(|t| t.get()) {
    Some(tid) => match park(
      tid,
      TState::ParkedPoll {
        poll,
        deadline,
        cap,
      },
    ) {
      Grant::Events(v) => v,
      Grant::Go => vec![],
    },
    None => {
      // the driver itself blocks: drive the world until ready or timed out
      loop {
        let (ready, now) = with(|s| {
          s.refresh_timers();
          (!s.peek_ready(poll).is_empty(), s.now)
        });
        if ready {
          return with(|s| s.collect(poll, cap, None));
        }
        if deadline.map_or(false, |d| d <= now) {
          return vec![];
        }
        if !driver_step(deadline) {
          // nothing enabled before the deadline
          let nd = with(|s| s.next_deadline());
          let target = match (nd, deadline) {
            (Some(a), Some(b)) => a.min(b),
            (Some(a), None) => a,
            (None, Some(b)) => b,
            (None, None) => return vec![], // would block forever
          };
          if target <= now {
            // due events exist but the hook refused to run them
            if deadline.is_none() {
              return vec![];
            }
            advance_to(deadline.unwrap());
          } else {
            advance_to(target);
          }
        }
      }
    }
  }
}

// ---------------------------------------------------------------------------
// threads and the baton
// ---------------------------------------------------------------------------

fn wait_for_grant(tid: Tid) -> Grant {
  let mut g = lock();
  loop {
    if let Some(s) = g.as_mut() {
      if let Some(t) = s.threads.get_mut(&tid) {
        if let Some(gr) = t.grant.take() {
          t.state = TState::Running;
          return gr;
        }
      }
    }
    g = CV_THREADS.wait(g).unwrap_or_else(|e| e.into_inner());
  }
}

fn park(tid: Tid, st: TState) -> Grant {
  {
    let mut g = lock();
    if let Some(s) = g.as_mut() {
      if let Some(t) = s.threads.get_mut(&tid) {
        t.state = st;
      }
      if s.running == Some(tid) {
        s.running = None;
      }
    }
    CV_DRIVER.notify_all();
  }
  wait_for_grant(tid)
}

struct ExitGuard(Tid);
impl Drop for ExitGuard {
  fn drop(&mut self) {
    let mut g = lock();
    if let Some(s) = g.as_mut() {
      if let Some(t) = s.threads.get_mut(&self.0) {
        t.state = TState::Exited {
          panicked: std::thread::panicking(),
        };
      }
      if s.running == Some(self.0) {
        s.running = None;
      }
    }
    CV_DRIVER.notify_all();
  }
}

/// Spawn a real OS thread that only ever runs while it holds the baton.
pub fn spawn<F, T>(name: Option<String>, f: F) -> io::Result<std::thread::JoinHandle<T>>
where
  F: FnOnce() -> T + Send + 'static,
  T: Send + 'static,
{
  let n = node();
  let tid = with(|s| {
    let tid = s.alloc_id();
    s.threads.insert(
      tid,
      ThreadSt {
        std_id: None,
        name: name.clone().unwrap_or_else(|| format!("sim-{tid}")),
        node: n,
        state: TState::Entry,
        grant: None,
      },
    );
    tid
  });
  let mut b = std::thread::Builder::new();
  if let Some(nm) = name {
    b = b.name(nm);
  }
  b.spawn(move || {
    TID.with(|t| t.set(Some(tid)));
    NODE.with(|c| c.set(n));
    {
      let mut g = lock();
      if let Some(s) = g.as_mut() {
        if let Some(t) = s.threads.get_mut(&tid) {
          t.std_id = Some(std::thread::current().id());
        }
      }
    }
    let _guard = ExitGuard(tid);
    let _ = wait_for_grant(tid);
    f()
  })
}

pub fn current_tid() -> Option<Tid> {
  TID.with(|t| t.get())
}

/// Threads the driver could run now (deterministic order: by tid).
pub fn enabled() -> Vec<Enabled> {
  with(|s| {
    s.refresh_timers();
    let mut v = Vec::new();
    for (tid, t) in s.threads.iter() {
      if let Some(kind) = s.thread_enabled(*tid, t) {
        v.push(Enabled {
          tid: *tid,
          node: t.node,
          kind,
        });
      }
    }
    v
  })
}

pub fn thread_states() -> Vec<(Tid, String, u32, TState)> {
  with(|s| {
    s.threads
      .iter()
      .map(|(tid, t)| (*tid, t.name.clone(), t.node, t.state.clone()))
      .collect()
  })
}

pub fn all_threads_exited() -> bool {
  with(|s| {
    s.threads
      .values()
      .all(|t| matches!(t.state, TState::Exited { .. }))
  })
}

pub fn any_thread_panicked() -> Option<String> {
  with(|s| {
    s.threads
      .values()
      .find(|t| matches!(t.state, TState::Exited { panicked: true }))
      .map(|t| t.name.clone())
  })
}

/// Hand the baton to `tid` and wait until it parks again.  For a thread
/// parked in `Poll::poll`, `pick` selects which ready sources it is told
/// about (None = all queued, in queue order, up to its `Events` capacity).
pub fn run_thread(tid: Tid, pick: Option<&[SrcId]>) -> Result<(), Hang> {
  let mut g = lock();
  let timeout;
  {
    let s = g.as_mut().expect("simcore: no world");
    assert!(s.running.is_none(), "simcore: baton already held");
    s.refresh_timers();
    timeout = s.hang_timeout;
    let st = s.threads.get(&tid).map(|t| t.state.clone());
    let grant = match st {
      Some(TState::ParkedPoll { poll, cap, .. }) => Grant::Events(s.collect(poll, cap, pick)),
      Some(TState::Exited { .. }) | Some(TState::Running) | None => {
        panic!("simcore: run_thread on a thread that cannot run")
      }
      _ => Grant::Go,
    };
    s.counters.thread_steps += 1;
    if let Some(TState::ParkedYield { .. }) = st {
      s.counters.yields += 1;
    }
    let t = s.threads.get_mut(&tid).unwrap();
    t.grant = Some(grant);
    s.running = Some(tid);
  }
  CV_THREADS.notify_all();
  let start = std::time::Instant::now();
  loop {
    let running = g.as_ref().map_or(None, |s| s.running);
    if running.is_none() {
      return Ok(());
    }
    let left = timeout.checked_sub(start.elapsed());
    match left {
      None => {
        let name = g
          .as_ref()
          .and_then(|s| s.threads.get(&tid).map(|t| t.name.clone()))
          .unwrap_or_default();
        return Err(Hang { tid, name });
      }
      Some(l) => {
        let (ng, _) = CV_DRIVER
          .wait_timeout(g, l)
          .unwrap_or_else(|e| e.into_inner());
        g = ng;
      }
    }
  }
}

/// Install the closure the driver uses to make one unit of world progress
/// when application code blocks inside a shim (argument: do not advance the
/// clock beyond this instant; result: whether anything happened).
pub fn set_step_hook(h: Option<Box<dyn FnMut(Option<u64>) -> bool>>) {
  STEP_HOOK.with(|c| *c.borrow_mut() = h);
}

pub fn set_yield_hook(h: Option<Box<dyn FnMut(&'static str)>>) {
  YIELD_HOOK.with(|c| *c.borrow_mut() = h);
}

fn driver_step(limit: Option<u64>) -> bool {
  let h = STEP_HOOK.with(|c| c.borrow_mut().take());
  match h {
    None => false,
    Some(mut f) => {
      let r = f(limit);
      STEP_HOOK.with(|c| {
        let mut b = c.borrow_mut();
        if b.is_none() {
          *b = Some(f);
        }
      });
      r
    }
  }
}

/// Run the world (through the step hook) until nothing is enabled within the
/// next 50 simulated ms.  Used before the "discovery started" rendezvous of
/// the application thread (a native blocking receive).
pub fn drive_until_quiescent() {
  if current_tid().is_some() {
    return;
  }
  let limit = now_ns() + 50_000_000;
  let mut guard = 0u32;
  while driver_step(Some(limit)) {
    guard += 1;
    if guard > 1_000_000 {
      panic!("simcore: drive_until_quiescent does not terminate");
    }
  }
}

/// Before a native `JoinHandle::join` on the driver: run the world until the
/// simulated thread with this std thread id has exited.
pub fn drive_until_thread_exit(id: std::thread::ThreadId) {
  if current_tid().is_some() {
    return;
  }
  let start = now_ns();
  let mut guard = 0u32;
  loop {
    let state = with(|s| {
      s.threads
        .values()
        .find(|t| t.std_id == Some(id))
        .map(|t| t.state.clone())
    });
    match state {
      None => {
        // not (yet) registered: it must at least be in Entry state somewhere; let the world move
        let any_entry = with(|s| s.threads.values().any(|t| t.state == TState::Entry));
        if !any_entry {
          return;
        }
      }
      Some(TState::Exited { .. }) => return,
      Some(_) => {}
    }
    if !driver_step(Some(start + 120_000_000_000)) {
      panic!("simcore: thread to be joined never exits (simulated deadlock at join)");
    }
    guard += 1;
    if guard > 5_000_000 {
      panic!("simcore: drive_until_thread_exit does not terminate");
    }
  }
}

/// Simulated sleep.
pub fn sleep_ns(d: u64) {
  let until = now_ns().saturating_add(d);
  match current_tid() {
    Some(tid) => {
      park(tid, TState::ParkedSleep { until });
    }
    None => loop {
      if now_ns() >= until {
        return;
      }
      if !driver_step(Some(until)) {
        let now = now_ns();
        let nd = next_deadline().map_or(until, |x| x.min(until));
        if nd >= until {
          advance_to(until);
          return;
        }
        if nd <= now {
          // something is due but may not run (its node is stalled): time must pass all the same, in
          // small steps so that what becomes due in between still runs on time
          advance_to((now + 1_000_000).min(until));
        } else {
          advance_to(nd);
        }
      }
    },
  }
}

/// Fine-grained scheduling point between two critical sections.
pub fn yield_point(site: &'static str) {
  let on = {
    let g = lock();
    g.as_ref().map_or(false, |s| s.yields_on)
  };
  if !on {
    return;
  }
  match current_tid() {
    Some(tid) => {
      park(tid, TState::ParkedYield { site });
    }
    None => {
      let h = YIELD_HOOK.with(|c| c.borrow_mut().take());
      if let Some(mut f) = h {
        f(site);
        YIELD_HOOK.with(|c| {
          let mut b = c.borrow_mut();
          if b.is_none() {
            *b = Some(f);
          }
        });
      }
    }
  }
}
